"""C19 - no client input can crash, wedge or leak a connection, or disturb others.

  C19.contain   the message loop body is one try with a catch-all that closes and leaves the loop; the outer try has a
                catch-all and a finally; typed handlers do not fall out of the containment
  C19.none      parameters with a None default that are truthiness-guarded at one use are guarded at every attribute use
                (contradiction rule) - in particular inside the finally block
  C19.shape     every constant index into the client message is below the length validate_message establishes
  C19.cleanup   finally: unsubscribe(client_id), sender cancelled and awaited, limiter cleanup; the registry key is a fresh
                per-connection object with identity equality
  C19.slots     semaphores (add_slot/query_slot) are acquired only through `async with` (released on every exit incl. cancellation)
  C19.queue     the per-connection queue is unbounded (producers hold a query slot while they put)
  C19.filters   non-dict filters become StorageError, invalid filters are dropped per filter
"""
from __future__ import annotations

import ast

from ..cfg import catches, cfg_of
from ..core import (
    AnalysisError,
    ancestors,
    call_name,
    dotted,
    finding_at,
    finding_func,
    norm,
    own_calls,
    qual_of,
    walk_no_nested,
)
from ..lib import NORMAL, all_calls, must_pass, stores_of, strip_await, test_edges
from ..selftest import E, M

P = "C19"


def rule_contain(program, ctx):
    rid = ctx.rule(
        "C19.contain",
        "start_client: `while True` body is exactly one try whose handlers include a catch-all `except Exception` that closes the socket and "
        "breaks; every handler either continues, breaks or sends; the function body's outer try has a catch-all and a finally; nothing "
        "but assignments precedes the outer try",
        floor=2,
    )
    fn = program.func("nostr_relay.web:start_client")
    outer = [s for s in fn.body if isinstance(s, ast.Try)]
    if len(outer) != 1:
        ctx.bad(finding_func(P, rid, fn, "start_client body is not a single outer try statement", text="def start_client(...)"))
        return
    outer = outer[0]
    pre = [s for s in fn.body if s is not outer and not (isinstance(s, ast.Expr) and isinstance(s.value, ast.Constant))]
    for s in pre:
        if fn.body.index(s) > fn.body.index(outer):
            ctx.bad(finding_at(P, rid, s, "statement after the outer try/finally of the connection handler"))
        elif not isinstance(s, ast.Assign):
            ctx.bad(finding_at(P, rid, s, "non-assignment before the outer try: an exception here escapes the handler"))
    if any(catches(h, "exc") == "all" for h in outer.handlers) and outer.finalbody:
        ctx.ok(rid, outer, "outer try: catch-all handler + finally")
    else:
        ctx.bad(finding_at(P, rid, outer, "outer try of the connection handler lacks a catch-all `except Exception` or a finally: an exception escapes start_client"))
    loops = [s for s in ast.walk(outer) if isinstance(s, ast.While)]
    if len(loops) != 1:
        raise AnalysisError("start_client: expected one message loop")
    loop = loops[0]
    if len(loop.body) != 1 or not isinstance(loop.body[0], ast.Try):
        bad = next((s for s in loop.body if not isinstance(s, ast.Try)), loop)
        ctx.bad(finding_at(P, rid, bad, "a statement of the message loop is outside the per-message try: its exception ends the connection handler through the outer handler without closing"))
        return
    per = loop.body[0]
    ca = [h for h in per.handlers if catches(h, "exc") == "all"]
    if not ca:
        ctx.bad(finding_at(P, rid, per, "per-message try has no catch-all `except Exception`"))
    for h in ca:
        closes = any(isinstance(c, ast.Call) and call_name(c) == "ws_close" for c in ast.walk(h))
        brk = any(isinstance(b, (ast.Break, ast.Return)) for b in ast.walk(h))
        if closes and brk:
            ctx.ok(rid, h, "catch-all: ws_close + break")
        else:
            ctx.bad(finding_at(P, rid, h, "catch-all handler of the message loop does not close the connection and leave the loop (the loop would spin on a broken connection)"))
    # order: catch-all must be last, otherwise later typed handlers are dead but harmless; a typed handler *after* it is unreachable
    if ca and per.handlers.index(ca[0]) != len(per.handlers) - 1:
        ctx.bad(finding_at(P, rid, ca[0], "catch-all handler is not the last handler of the per-message try"))
    # JSON decode errors must not end the connection silently with an exception
    names = set()
    from ..cfg import handler_names
    for h in per.handlers:
        names |= {x.split(".")[-1] for x in handler_names(h)}
    for need in ("JSONDecodeError", "StorageError", "AuthenticationError"):
        if need in names:
            ctx.ok(rid, per, f"handler for {need}")
        else:
            ctx.bad(finding_at(P, rid, per, f"per-message try has no handler for {need} (client-triggerable) - it would close the connection instead of answering", text=need))


def rule_none(program, ctx):
    rid = ctx.rule(
        "C19.none",
        "contradiction rule (G7): a start_client parameter whose default is None and which is truthiness-guarded at some use must be "
        "guarded (known truthy on every path) at every attribute access - the finally block included",
        floor=1,
    )
    fn = program.func("nostr_relay.web:start_client")
    cfg = cfg_of(fn)
    args = fn.args.args
    defaults = [None] * (len(args) - len(fn.args.defaults)) + list(fn.args.defaults)
    for a, d in zip(args, defaults):
        if not (isinstance(d, ast.Constant) and d.value is None):
            continue
        name = a.arg
        uses = [n for n in walk_no_nested(fn) if isinstance(n, ast.Attribute) and isinstance(n.value, ast.Name) and n.value.id == name]
        if not uses:
            continue

        def pred(expr, pol, name=name):
            if isinstance(expr, ast.Name) and expr.id == name:
                return pol
            if isinstance(expr, ast.Compare) and len(expr.ops) == 1 and isinstance(expr.left, ast.Name) and expr.left.id == name and isinstance(expr.comparators[0], ast.Constant) and expr.comparators[0].value is None:
                return (isinstance(expr.ops[0], ast.IsNot) and pol) or (isinstance(expr.ops[0], ast.Is) and not pol)
            return False

        passes = test_edges(cfg, pred)
        guarded_somewhere = False
        unguarded = []
        for u in uses:
            # `x and x.attr` inside one expression
            inline = False
            from ..core import enclosing_stmt as _es
            from ..lib import guard_atoms as _ga
            # short-circuit guards inside the expression, whatever their spelling (`x and x.a`, `not x or not x.a`, `… if x else …`)
            for e_, pol_ in _ga(u, stop=_es(u)):
                if pred(e_, pol_):
                    inline = True
            if inline:
                guarded_somewhere = True
                ctx.ok(rid, u, f"`{name}.{u.attr}` guarded inline by `{name} and …`")
                continue
            from ..core import enclosing_stmt
            st = enclosing_stmt(u)
            nodes = cfg.nodes_of(st)
            if must_pass(cfg, passes, nodes):
                unguarded.append(u)
            else:
                guarded_somewhere = True
                ctx.ok(rid, u, f"`{name}.{u.attr}` only on paths where `{name}` is truthy")
        for u in unguarded:
            ctx.bad(finding_at(P, rid, u, f"`{name}` defaults to None and is guarded elsewhere in start_client, but `{name}.{u.attr}` here is unguarded: "
                               f"with {name}=None the handler coroutine ends with AttributeError" + (" (inside the finally block: the exception escapes the handler)" if _in_finally(u) else "")))


def _in_finally(node) -> bool:
    prev = node
    for a in ancestors(node):
        if isinstance(a, ast.Try) and any(prev is s or any(prev is w for w in ast.walk(s)) for s in a.finalbody):
            return True
        prev = a
    return False


def rule_shape(program, ctx, prop=P, rid="C19.shape"):
    ctx.rule(
        rid,
        "validate_message establishes type list and a minimum length L (derived from its `len(message) < L` test) and a command whitelist; "
        "every constant index message[k] in start_client and RateLimiter.is_limited has k < L; the whitelist equals the dispatched commands",
        floor=4,
    )
    vm = program.func("nostr_relay.web:validate_message")
    param = vm.args.args[0].arg
    L = None
    islist = False
    cmds = set()
    # facts that hold whenever validate_message returns truthy: false edges of `if X: return False` guards and the
    # conjuncts of a final `return <bool expr>`
    from ..lib import implied

    facts = []
    for st in vm.body:
        if isinstance(st, ast.If) and not st.orelse and any(isinstance(r, ast.Return) and isinstance(r.value, ast.Constant) and r.value.value is False for r in st.body):
            facts += [c[0] for c in implied(st.test, "f") if len(c) == 1]
        elif isinstance(st, ast.Return) and st.value is not None and not isinstance(st.value, ast.Constant):
            facts += [c[0] for c in implied(st.value, "t") if len(c) == 1]
    for expr, pol in facts:
        if isinstance(expr, ast.Call) and call_name(expr) == "isinstance" and len(expr.args) == 2 and dotted(expr.args[0]) == param and dotted(expr.args[1]) == "list" and pol:
            islist = True
        if isinstance(expr, ast.Compare) and len(expr.ops) == 1:
            l, r, op = expr.left, expr.comparators[0], type(expr.ops[0])
            if isinstance(l, ast.Call) and call_name(l) == "len" and l.args and dotted(l.args[0]) == param and isinstance(r, ast.Constant) and isinstance(r.value, int):
                n = r.value
                bound = None
                if (op is ast.Lt and not pol) or (op is ast.GtE and pol):
                    bound = n
                elif (op is ast.LtE and not pol) or (op is ast.Gt and pol):
                    bound = n + 1
                elif op is ast.Eq and pol:
                    bound = n
                if bound is not None:
                    L = max(L or 0, bound)
            if isinstance(l, ast.Subscript) and dotted(l.value) == param and isinstance(r, (ast.Tuple, ast.List, ast.Set)) and ((op is ast.In and pol) or (op is ast.NotIn and not pol)):
                cmds = {e.value for e in r.elts if isinstance(e, ast.Constant)}
    if L is None or not islist:
        ctx.bad(finding_func(prop, rid, vm, "validate_message no longer establishes `isinstance(message, list)` and a minimum length", text="def validate_message(...)"))
        return
    ctx.ok(rid, vm, f"validate_message: list, len >= {L}, command in {sorted(cmds)}")
    sc = program.func("nostr_relay.web:start_client")
    # the gate is applied before any use
    cfg = cfg_of(sc)

    def gate(expr, pol):
        return isinstance(expr, ast.Call) and call_name(expr) == "validate_message" and pol

    passes = test_edges(cfg, gate)
    for fn, pname in ((sc, "message"), (program.func("nostr_relay.rate_limiter:RateLimiter.is_limited"), "message")):
        for n in walk_no_nested(fn):
            if isinstance(n, ast.Subscript) and isinstance(n.value, ast.Name) and n.value.id == pname:
                if isinstance(n.slice, ast.Constant) and isinstance(n.slice.value, int):
                    k = n.slice.value
                    if k >= L or k < -L:
                        ctx.bad(finding_at(prop, rid, n, f"message[{k}] but validate_message only guarantees {L} element(s): IndexError on a short frame"))
                    else:
                        if fn is sc:
                            from ..core import enclosing_stmt
                            st = enclosing_stmt(n)
                            if must_pass(cfg, passes, cfg.nodes_of(st)):
                                ctx.bad(finding_at(prop, rid, n, f"message[{k}] is used on a path that has not passed validate_message"))
                                continue
                        ctx.ok(rid, n, f"{pname}[{k}] < {L}")
                elif isinstance(n.slice, ast.Slice):
                    ctx.ok(rid, n, f"{pname}[slice] cannot fail", nontrivial=False)
    # dispatched commands
    dispatched = set()
    for n in walk_no_nested(sc):
        if isinstance(n, ast.Compare) and isinstance(n.left, ast.Name) and n.left.id == "command" and len(n.ops) == 1 and isinstance(n.ops[0], ast.Eq) and isinstance(n.comparators[0], ast.Constant):
            dispatched.add(n.comparators[0].value)
    if cmds and dispatched != cmds:
        ctx.bad(finding_func(prop, rid, sc, f"commands accepted by validate_message {sorted(cmds)} differ from those dispatched {sorted(dispatched)}", text="def start_client(...) :: dispatch"))
    else:
        ctx.ok(rid, sc, f"dispatch table == validate_message whitelist {sorted(cmds)}")


def rule_cleanup(program, ctx):
    rid = ctx.rule(
        "C19.cleanup",
        "start_client: client_id bound once from ClientID(...); ClientID keeps identity equality (no __eq__ override: two connections can "
        "never share a registry entry); finally reaches storage.unsubscribe(client_id) first and unconditionally, cancels and awaits the "
        "sender inside a CancelledError handler, runs limiter cleanup",
        floor=2,
    )
    sc = program.func("nostr_relay.web:start_client")
    st = stores_of(sc, "client_id")
    if len(st) == 1 and isinstance(st[0], ast.Assign) and isinstance(st[0].value, ast.Call) and call_name(st[0].value) == "ClientID":
        ctx.ok(rid, st[0], "client_id = ClientID(remote_addr), bound once per connection")
    else:
        ctx.bad(finding_func(P, rid, sc, "client_id is not bound exactly once from ClientID(...)", text="def start_client(...) :: client_id"))
    ci = program.cls("nostr_relay.util:ClientID")
    # the string __hash__ is computed from is set once: the object is a key of storage.clients (WeakKeyDictionary) from the first REQ on
    hashed = {a.attr for h in [ci.methods.get("__hash__")] if h is not None for a in ast.walk(h) if isinstance(a, ast.Attribute) and isinstance(a.value, ast.Name) and a.value.id == "self"}
    for mn, mfn in ci.methods.items():
        if mn == "__init__":
            continue
        for x in ast.walk(mfn):
            tg = x.targets if isinstance(x, ast.Assign) else [x.target] if isinstance(x, (ast.AugAssign, ast.AnnAssign)) else []
            for t in tg:
                if isinstance(t, ast.Attribute) and isinstance(t.value, ast.Name) and t.value.id == "self" and t.attr in hashed:
                    ctx.bad(finding_at(P, rid, x, f"ClientID.{mn} re-assigns `self.{t.attr}`, which __hash__ is computed from: once the connection has a subscription the registry entry can no "
                                       "longer be found - CLOSE does nothing, the entry and its subscriptions outlive the connection"))
    for m_ in program.modules.values():
        if m_.name.startswith("nostr_relay") and m_.name != "nostr_relay.util":
            for x in ast.walk(m_.tree):
                tg = x.targets if isinstance(x, ast.Assign) else []
                for t in tg:
                    if isinstance(t, ast.Attribute) and t.attr in hashed and "client" in ast.unparse(t.value).lower():
                        ctx.bad(finding_at(P, rid, x, f"`{ast.unparse(t)}` is assigned outside ClientID: the registry key's hash changes under the WeakKeyDictionary"))
    if "__eq__" in ci.methods:
        f = ci.methods["__eq__"]
        ident = any(isinstance(c, ast.Compare) and isinstance(c.ops[0], ast.Is) for c in ast.walk(f))
        if not ident:
            ctx.bad(finding_func(P, rid, f, "ClientID defines value equality: two live connections whose id strings collide (same address, 16-bit random "
                                 "suffix) share one subscription-registry entry - a REQ/CLOSE/disconnect on one disturbs the other", text="def __eq__(...)"))
        else:
            ctx.ok(rid, f, "ClientID.__eq__ is identity")
    else:
        ctx.ok(rid, ci.node, "ClientID has identity equality (no __eq__)")
    outer = next((s for s in sc.body if isinstance(s, ast.Try) and s.finalbody), None)
    if outer is None:
        ctx.bad(finding_func(P, rid, sc, "no finally block", text="def start_client(...) :: finally"))
        return
    first = outer.finalbody[0]
    if isinstance(first, ast.Expr) and isinstance(first.value, ast.Await) and ast.unparse(first.value.value).startswith("storage.unsubscribe(client_id)"):
        ctx.ok(rid, first, "finally starts with await storage.unsubscribe(client_id)")
    else:
        ctx.bad(finding_at(P, rid, first, "the finally block does not start by dropping the connection's subscriptions: an earlier failing statement would leak them"))
    aw = [a for s in outer.finalbody for a in ast.walk(s) if isinstance(a, ast.Await) and dotted(a.value) == "send_task"]
    if aw:
        guarded = any(isinstance(t, ast.Try) and any(catches(h, "cancel") == "all" for h in t.handlers) for t in ancestors(aw[0]))
        canc = any(isinstance(c, ast.Call) and ast.unparse(c) == "send_task.cancel()" for s in outer.finalbody for c in ast.walk(s))
        if guarded and canc:
            ctx.ok(rid, aw[0], "sender cancelled and awaited under `except CancelledError`")
        else:
            ctx.bad(finding_at(P, rid, aw[0], "sender task is awaited without cancel()/CancelledError handler: the handler hangs or the cancellation escapes"))
    else:
        ctx.bad(finding_at(P, rid, first, "the sender task is not awaited in finally: it outlives the connection", text="await send_task"))
    if any(isinstance(c, ast.Call) and call_name(c).endswith("rate_limiter.cleanup") for s in outer.finalbody for c in ast.walk(s)):
        ctx.ok(rid, first, "finally: rate_limiter.cleanup()")
    else:
        ctx.bad(finding_at(P, rid, first, "finally no longer runs the rate limiter's cleanup", text="rate_limiter.cleanup"))


def rule_slots(program, ctx, prop=P, rid="C19.slots"):
    ctx.rule(
        rid,
        "asyncio.Semaphore attributes of the storage (add_slot, query_slot) are used only as `async with <slot>:` - never bare "
        "acquire()/release(): a cancelled or failing holder must not leak a slot (ten leaked query slots wedge every connection)",
        floor=3,
    )
    m = program.module("nostr_relay.storage.db")
    slots = set()
    for n in ast.walk(m.tree):
        if isinstance(n, ast.Assign) and isinstance(n.value, ast.Call) and call_name(n.value).endswith("Semaphore"):
            for t in n.targets:
                if isinstance(t, ast.Attribute):
                    slots.add(t.attr)
    if not slots:
        raise AnalysisError("no semaphore slots found in storage/db.py")
    for mod in program.modules.values():
        if mod.rel.startswith("<dep>"):
            continue
        for n in ast.walk(mod.tree):
            if isinstance(n, ast.Attribute) and n.attr in slots:
                par = n._parent
                if isinstance(par, ast.withitem) and isinstance(par._parent, ast.AsyncWith):
                    ctx.ok(rid, n, f"async with self.{n.attr}")
                elif isinstance(par, ast.Assign) and n in par.targets:
                    ctx.ok(rid, n, f"{n.attr} = Semaphore(...)", nontrivial=False)
                elif isinstance(par, ast.Attribute) and par.attr in ("acquire", "release", "locked", "_value"):
                    if par.attr in ("acquire", "release") and _acquire_try_finally(n, par):
                        ctx.ok(rid, n, f"{n.attr}.{par.attr}() in the acquire / try … finally: release idiom")
                    elif par.attr in ("acquire", "release"):
                        ctx.bad(finding_at(prop, rid, n, f"bare `{n.attr}.{par.attr}()`: the slot is not released when the holder is cancelled or raises between acquire and release"))
                else:
                    ctx.bad(finding_at(prop, rid, n, f"`{n.attr}` escapes the `async with` idiom (passed on / wrapped): release on every exit cannot be established"))


def _acquire_try_finally(slot_attr, call_attr) -> bool:
    """`await s.acquire()` directly followed by `try: … finally: s.release()` (or the release inside such a finally)."""
    from ..core import enclosing_stmt

    st = enclosing_stmt(slot_attr)
    name = ast.unparse(slot_attr)
    par = st._parent
    for field in ("body", "orelse", "finalbody"):
        seq = getattr(par, field, None)
        if isinstance(seq, list) and st in seq:
            if call_attr.attr == "release":
                # must sit in a finalbody
                return field == "finalbody" and isinstance(par, ast.Try)
            i = seq.index(st)
            nxt = seq[i + 1] if i + 1 < len(seq) else None
            return isinstance(nxt, ast.Try) and any(
                isinstance(c, ast.Call) and ast.unparse(c.func) == f"{name}.release" for s in nxt.finalbody for c in ast.walk(s)
            )
    return False


def rule_queue(program, ctx, prop=P, rid="C19.queue"):
    ctx.rule(
        rid,
        "the per-connection subscription queue is created unbounded (`asyncio.Queue()`): query tasks await queue.put while holding a "
        "query slot and a DB connection, and disconnecting cancels the only consumer - a bounded queue wedges REQs for every connection",
        floor=1,
    )
    sc = program.func("nostr_relay.web:start_client")
    for st in stores_of(sc, "subscription_queue"):
        if isinstance(st, ast.Assign) and isinstance(st.value, ast.Call) and call_name(st.value).endswith("Queue"):
            c = st.value
            bounded = bool(c.args) or any(k.arg == "maxsize" for k in c.keywords)
            if bounded:
                ctx.bad(finding_at(prop, rid, st, "the per-connection queue is bounded: producers block in queue.put holding a query slot once the client stops reading"))
            else:
                ctx.ok(rid, st, "subscription_queue = asyncio.Queue() (unbounded)")


def rule_filters(program, ctx):
    rid = ctx.rule(
        "C19.filters",
        "NostrQuery.model_validate: iteration over a non-dict filter is inside a try whose AttributeError handler raises StorageError; "
        "BaseStorage.subscribe validates each filter inside a try with a ValidationError handler (one bad filter does not fail the REQ)",
        floor=1,
    )
    mv = program.func("nostr_relay.storage.base:NostrQuery.model_validate")
    found = False
    for c in ast.walk(mv):
        if isinstance(c, ast.Call) and isinstance(c.func, ast.Attribute) and c.func.attr == "items":
            t = next((a for a in ancestors(c) if isinstance(a, ast.Try)), None)
            if t is not None and any("AttributeError" in ast.unparse(h.type) and any(isinstance(r, ast.Raise) and "StorageError" in ast.unparse(r) for r in ast.walk(h)) for h in t.handlers if h.type is not None):
                found = True
                ctx.ok(rid, c, "obj.items() under `except AttributeError: raise StorageError`")
            elif any(isinstance(a, ast.If) and "isinstance" in ast.unparse(a.test) and "dict" in ast.unparse(a.test) for a in ancestors(c)):
                found = True
                ctx.ok(rid, c, "obj.items() under an isinstance(obj, dict) guard")
    if not found:
        ctx.bad(finding_func(P, rid, mv, "a non-dict filter is iterated without mapping the AttributeError to StorageError", text="def model_validate(...)"))
    sub = program.func("nostr_relay.storage.base:BaseStorage.subscribe")
    found = False
    for c in ast.walk(sub):
        if isinstance(c, ast.Call) and call_name(c).endswith("model_validate"):
            t = next((a for a in ancestors(c) if isinstance(a, ast.Try)), None)
            if t is not None and any(h.type is not None and "ValidationError" in ast.unparse(h.type) for h in t.handlers) and any(isinstance(a, ast.For) for a in ancestors(t)):
                found = True
                ctx.ok(rid, c, "per-filter try/except ValidationError inside the loop")
    if not found:
        ctx.bad(finding_func(P, rid, sub, "filters are not validated one by one under `except ValidationError`", text="def subscribe(...) :: validation"))


def rule_writer(program, ctx, prop=P, rid="C19.writer"):
    from ..cfg import catches

    ctx.rule(
        rid,
        "the LMDB writer thread is shared by every connection: inside WriterThread.run's `while` loop the per-task work is enclosed by a catch-all `except Exception` "
        "(one client's event that makes an index conversion raise - OverflowError for a kind >= 2**32, AttributeError for a non-string tag name - must not end the thread; "
        "after that every connection's EVENT is still answered OK=true but never stored)",
        floor=1,
    )
    run_fn = program.func("nostr_relay.storage.kv:WriterThread.run")
    loop = next((w for w in walk_no_nested(run_fn) if isinstance(w, ast.While)), None)
    if loop is None:
        ctx.bad(finding_func(prop, rid, run_fn, "WriterThread.run has no task loop", text="def run(...) :: loop"))
        return
    tries = [t for t in ast.walk(loop) if isinstance(t, ast.Try) and any(isinstance(w, ast.With) and "begin" in ast.unparse(w.items[0].context_expr) for s in t.body for w in ast.walk(s))]
    if not tries:
        ctx.bad(finding_at(prop, rid, loop, "the write transaction is not inside a try within the task loop: any failing task ends the writer thread for all connections"))
        return
    for t in tries:
        if any(catches(h, "exc") == "all" for h in t.handlers):
            ctx.ok(rid, t, "catch-all handler around each task")
        else:
            ctx.bad(finding_at(prop, rid, t.handlers[0] if t.handlers else t, f"the handler around a writer task catches only `{ast.unparse(t.handlers[0].type)[:60] if t.handlers and t.handlers[0].type else '?'}`: "
                               "an exception of another type raised while applying one client's event (OverflowError, AttributeError, KeyError …) ends the writer thread - later events of "
                               "every connection are acknowledged but never stored"))


def rule_cancelled_await(program, ctx, prop=P, rid="C19.cancelled"):
    ctx.rule(
        rid,
        "a subscription's query task is cancelled by unsubscribe(); awaiting such a task re-raises asyncio.CancelledError - a BaseException that passes every "
        "`except Exception` of the connection handler. No code on the connection path (storage/base.py, web.start_client) awaits `<sub>.query_task` outside a try that "
        "catches CancelledError",
        floor=1,
    )
    n = 0
    for q in [k for k in program.functions if k.startswith(("nostr_relay.storage.base:", "nostr_relay.web:start_client", "nostr_relay.storage.db:Subscription", "nostr_relay.storage.kv:Subscription"))]:
        fn = program.functions[q]
        for a in walk_no_nested(fn):
            if isinstance(a, ast.Await) and ((isinstance(a.value, ast.Attribute) and a.value.attr == "query_task") or (isinstance(a.value, ast.Call) and "query_task" in ast.unparse(a.value) and call_name(a.value) in ("asyncio.wait_for", "asyncio.shield", "asyncio.gather"))):
                n += 1
                tries = [t for t in ancestors(a) if isinstance(t, ast.Try) and any(any(x is a for x in ast.walk(b)) for b in t.body)]
                caught = any(h.type is None or any(k in ast.unparse(h.type) for k in ("CancelledError", "BaseException")) for t in tries for h in t.handlers)
                if caught:
                    ctx.ok(rid, a, f"{qual_of(a)}: awaited under a CancelledError handler")
                else:
                    ctx.bad(finding_at(prop, rid, a, f"{qual_of(a)} awaits a query task that unsubscribe() may just have cancelled: CancelledError propagates out of subscribe() through every "
                                       "`except Exception` and ends the connection handler - later commands on this connection are never answered"))
    if not n:
        ctx.ok(rid, program.func("nostr_relay.storage.base:BaseStorage.unsubscribe"), "no await of a query task on the connection path")


def rule_limiter_cleanup(program, ctx, prop=P, rid="C19.limiter"):
    from ..lib import guard_atoms

    ctx.rule(
        rid,
        "RateLimiter.cleanup runs in start_client's finally block outside any handler, so it must not raise for any history: a keyed lookup `D[k]` in it is safe only when "
        "k is a constant guarded by a membership/`.get` test, k iterates D itself, D is a defaultdict attribute, or the lookup sits in a try that catches KeyError - "
        "looking a *seen* command up in a table built from the *configured* commands raises KeyError for every command without an ip rule (CLOSE, AUTH, ...)",
        floor=1,
    )
    rl = program.cls("nostr_relay.rate_limiter:RateLimiter")
    fn = rl.methods.get("cleanup")
    if fn is None:
        raise AnalysisError("RateLimiter.cleanup not found")
    n = 0
    local_dicts = {}
    for s_ in walk_no_nested(fn):
        if isinstance(s_, ast.Assign) and isinstance(s_.targets[0], ast.Name) and isinstance(s_.value, (ast.Dict, ast.DictComp)) or \
                isinstance(s_, ast.Assign) and isinstance(s_.targets[0], ast.Name) and isinstance(s_.value, ast.Call) and call_name(s_.value) == "dict":
            local_dicts[s_.targets[0].id] = s_
    iters = {}  # loop variable -> text of what it iterates
    for l in ast.walk(fn):
        if isinstance(l, (ast.For, ast.comprehension)):
            it = l.iter
            base = it.func.value if isinstance(it, ast.Call) and isinstance(it.func, ast.Attribute) and it.func.attr in ("items", "keys") else it
            tgt = l.target.elts[0] if isinstance(l.target, ast.Tuple) and isinstance(it, ast.Call) and getattr(it.func, "attr", "") == "items" else l.target
            if isinstance(tgt, ast.Name):
                iters[tgt.id] = ast.unparse(base)
    for sub in ast.walk(fn):
        if not (isinstance(sub, ast.Subscript) and isinstance(sub.ctx, ast.Load)):
            continue
        if isinstance(sub.value, (ast.Dict, ast.DictComp)):
            n += 1
            if not isinstance(sub.slice, ast.Constant):
                ctx.bad(finding_at(prop, rid, sub, f"RateLimiter.cleanup looks `{ast.unparse(sub.slice)[:20]}` up in a table built on the spot (`{ast.unparse(sub.value)[:50]}`): a key that table lacks "
                                   "raises KeyError out of start_client's finally block"))
            continue
        if not (isinstance(sub.value, ast.Name) and sub.value.id in local_dicts):
            continue
        n += 1
        k = sub.slice
        d = sub.value.id
        in_try = any(isinstance(a, ast.Try) and any(h.type is None or "KeyError" in ast.unparse(h.type) or "Exception" in ast.unparse(h.type) or "LookupError" in ast.unparse(h.type) for h in a.handlers)
                     and any(sub is x for b in a.body for x in ast.walk(b)) for a in ancestors(sub))
        same = isinstance(k, ast.Name) and iters.get(k.id) == d
        guarded = any(pol and isinstance(e, ast.Compare) and isinstance(e.ops[0], ast.In) and ast.unparse(e.left) == ast.unparse(k) and ast.unparse(e.comparators[0]) == d for e, pol in guard_atoms(sub, stop=fn))
        if in_try or same or guarded:
            ctx.ok(rid, sub, f"{d}[{ast.unparse(k)[:20]}] cannot raise KeyError")
        else:
            src = iters.get(k.id, "?") if isinstance(k, ast.Name) else "?"
            ctx.bad(finding_at(prop, rid, sub, f"RateLimiter.cleanup looks `{ast.unparse(k)[:20]}` (from `{src}`) up in the local table `{d}` built at line {local_dicts[d].lineno}: a key that table "
                               "lacks raises KeyError out of start_client's finally block - the connection handler ends with an unhandled exception"))
    ctx.ok(rid, fn, f"cleanup: {n} keyed lookups in local tables checked")


def rule_regex(program, ctx, prop=P, rid="C19.regex"):
    import re as _re
    try:
        from re import _parser as _sre
    except ImportError:  # pragma: no cover
        import sre_parse as _sre

    ctx.rule(
        rid,
        "no client string is matched against a pattern with nested unbounded repetition: every regular expression literal in the modules that see client input "
        "(auth, web, validators, storage.base, rate_limiter, util) has star height 1 - `(?:[a-z0-9-]+\\.?)+` backtracks exponentially on a non-matching input of a few dozen "
        "characters and holds the event loop (and the GIL) for minutes: the relay answers nobody",
        floor=0,
    )

    def height(items, depth=0, found=None):
        found = found if found is not None else []
        for op, av in items:
            nm = str(op)
            if nm in ("MAX_REPEAT", "MIN_REPEAT"):
                lo, hi, sub = av
                unbounded = hi is _sre.MAXREPEAT or (isinstance(hi, int) and hi > 64)
                if unbounded and depth >= 1:
                    found.append(True)
                height(sub, depth + (1 if unbounded else 0), found)
            elif nm == "SUBPATTERN":
                height(av[-1], depth, found)
            elif nm == "BRANCH":
                for b in av[1]:
                    height(b, depth, found)
            elif nm in ("ASSERT", "ASSERT_NOT"):
                height(av[1], depth, found)
        return found

    n = 0
    for mn in ("nostr_relay.auth", "nostr_relay.web", "nostr_relay.validators", "nostr_relay.storage.base", "nostr_relay.rate_limiter", "nostr_relay.util"):
        m = program.modules.get(mn)
        if m is None:
            continue
        for c in ast.walk(m.tree):
            if isinstance(c, ast.Call) and call_name(c).split(".")[0] in ("re", "regex") and call_name(c).split(".")[-1] in ("compile", "match", "fullmatch", "search", "sub", "findall", "finditer", "split") \
                    and c.args and isinstance(c.args[0], ast.Constant) and isinstance(c.args[0].value, str):
                n += 1
                try:
                    tree = _sre.parse(c.args[0].value)
                except Exception:
                    continue
                if height(list(tree)):
                    ctx.bad(finding_at(prop, rid, c, f"the pattern `{c.args[0].value[:50]}` nests an unbounded repetition inside another: matching a crafted client string takes exponential time "
                                       "on the event loop"))
                else:
                    ctx.ok(rid, c, f"{mn.split('.')[-1]}: pattern `{c.args[0].value[:30]}` has star height 1")
    ctx.ok(rid, program.module("nostr_relay.web").tree, f"{n} regular expression literals checked")


def rule_arith(program, ctx, prop=P, rid="C19.arith"):
    ctx.rule(
        rid,
        "the connection handler's epilogues cannot raise: in web.send_subscriptions (awaited from start_client's finally, where only CancelledError is caught) and in "
        "start_client itself, a division / modulo by a runtime value outside any try raises ZeroDivisionError for the connection that sent or received nothing - the "
        "exception escapes the handler and skips the remaining clean-up (limiter history)",
        floor=1,
    )
    n = 0
    for q in ("nostr_relay.web:send_subscriptions", "nostr_relay.web:start_client"):
        fn = program.func(q)
        for b in walk_no_nested(fn):
            if isinstance(b, ast.BinOp) and isinstance(b.op, (ast.Div, ast.FloorDiv, ast.Mod)) and not isinstance(b.right, ast.Constant) and not (isinstance(b.left, ast.Constant) and isinstance(b.left.value, (str, bytes))):
                n += 1
                tries = [a for a in ancestors(b) if isinstance(a, ast.Try) and any(b is x for s_ in a.body for x in ast.walk(s_))
                         and any(h.type is None or any(t in ast.unparse(h.type) for t in ("Exception", "ZeroDivisionError", "ArithmeticError")) for h in a.handlers)]
                from ..lib import guard_atoms
                guarded = any(pol and ast.unparse(e) in (ast.unparse(b.right), f"{ast.unparse(b.right)} > 0", f"{ast.unparse(b.right)} != 0") for e, pol in guard_atoms(b, stop=fn))
                if tries or guarded:
                    ctx.ok(rid, b, f"{fn.name}: `{ast.unparse(b)[:40]}` is guarded")
                else:
                    ctx.bad(finding_at(prop, rid, b, f"{fn.name}: `{ast.unparse(b)[:50]}` divides by a runtime value outside any handler: zero (nothing sent / received yet) raises out of the "
                                       "connection handler"))
    ctx.ok(rid, program.func("nostr_relay.web:send_subscriptions"), f"{n} divisions by runtime values checked")


def rule_token(program, ctx, prop=P, rid="C19.token"):
    ctx.rule(
        rid,
        "start_client dereferences its auth token unconditionally (`auth_token.get(...)` in the finally block that ends every connection), so every binding of that local "
        "is a mapping: the initial `{}` and the result of Authenticator.authenticate, whose every normal exit returns a dict built in the function (failures raise "
        "AuthenticationError) - a `return None` for a malformed AUTH payload raises AttributeError out of the connection handler when that connection ends",
        floor=2,
    )
    sc = program.func("nostr_relay.web:start_client")
    derefs = [a for a in ast.walk(sc) if isinstance(a, ast.Attribute) and dotted(a.value) == "auth_token"]
    guarded_all = True
    from ..lib import guard_atoms
    for a in derefs:
        if not any(pol and ast.unparse(e) in ("auth_token", "auth_token is not None") for e, pol in guard_atoms(a, stop=sc)):
            guarded_all = False
    if derefs and guarded_all:
        ctx.ok(rid, derefs[0], "start_client tests the token before every dereference")
        return
    for st in stores_of(sc, "auth_token"):
        v = strip_await(st.value) if isinstance(st, ast.Assign) else None
        if isinstance(v, ast.Dict):
            ctx.ok(rid, st, "auth_token = {} (anonymous)")
        elif isinstance(v, ast.Call) and call_name(v).endswith("authenticate"):
            ctx.ok(rid, st, "auth_token = await authenticate(...)")
        else:
            ctx.bad(finding_at(prop, rid, st, f"start_client binds auth_token to `{ast.unparse(v)[:50] if v is not None else ast.unparse(st)[:50]}`, not known to be a mapping; the finally block calls auth_token.get"))
    fns = [ci.methods["authenticate"] for ci in program.classes.values() if "authenticate" in ci.methods and not ci.module.rel.startswith("<dep>") and ci.module.name.startswith("nostr_relay")]
    if not fns:
        raise AnalysisError("no authenticate() implementation found")
    for fn in fns:
        cfg = cfg_of(fn)
        dicts = {t.id for s_ in walk_no_nested(fn) if isinstance(s_, ast.Assign) and isinstance(s_.value, (ast.Dict, ast.DictComp)) or isinstance(s_, ast.Assign) and isinstance(s_.value, ast.Call) and call_name(s_.value) == "dict" for t in s_.targets if isinstance(t, ast.Name)}
        okall = True
        rets = [r for r in walk_no_nested(fn) if isinstance(r, ast.Return)]
        for r in rets:
            v = strip_await(r.value) if r.value is not None else None
            good = isinstance(v, (ast.Dict, ast.DictComp)) or (isinstance(v, ast.Name) and v.id in dicts and all(isinstance(s_, ast.Assign) and isinstance(s_.value, (ast.Dict, ast.DictComp, ast.Call)) for s_ in stores_of(fn, v.id))) \
                or (isinstance(v, ast.Call) and isinstance(v.func, ast.Attribute) and v.func.attr == "authenticate" and "super()" in ast.unparse(v.func.value))
            if not good:
                okall = False
                ctx.bad(finding_at(prop, rid, r, f"{qual_of(fn)} returns `{ast.unparse(r.value)[:40] if r.value is not None else 'None'}`, not a token dict: start_client stores it and later calls "
                                   "auth_token.get(...) in its finally block - AttributeError escapes the connection handler"))
        # falling off the end returns None as well
        retnodes = [n for r in rets for n in cfg.nodes_of(r)]
        path = cfg.find_path([cfg.entry], [cfg.exit], avoid_nodes=retnodes, kinds=NORMAL)
        if path:
            okall = False
            last = next((cfg.ast_of(n) for n in reversed(path[:-1]) if cfg.ast_of(n) is not None), fn)
            ctx.bad(finding_at(prop, rid, last, f"{qual_of(fn)} can fall off its end (returns None)", path=cfg.describe_path(path)[-4:]))
        if okall:
            ctx.ok(rid, fn, f"{qual_of(fn)}: every normal exit returns a dict")


def run(program, ctx):
    from ..lib import rule_awaited

    rule_awaited(program, ctx, P, ANCHORS)
    rule_contain(program, ctx)
    rule_none(program, ctx)
    rule_shape(program, ctx)
    rule_cleanup(program, ctx)
    rule_slots(program, ctx)
    rule_queue(program, ctx)
    rule_filters(program, ctx)
    rule_writer(program, ctx)
    rule_cancelled_await(program, ctx)
    rule_token(program, ctx)
    rule_limiter_cleanup(program, ctx)
    rule_arith(program, ctx)
    rule_regex(program, ctx)
    from . import c02

    c02.rule_rows(program, ctx, prop=P, rid="C19.rows")
    from . import c06, c13

    c06.rule_reap(program, ctx, prop=P, rid="C19.reap")
    c13.rule_typed(program, ctx, prop=P, rid="C19.typed")
    from . import c03

    c03.rule_chain(program, ctx, prop=P, rid="C19.chain")
    ctx.not_decided += [
        "liveness ('keeps answering') and isolation between connections as runtime facts",
        "resource exhaustion by oversized or deeply nested inputs",
    ]


WEB = "nostr_relay/web.py"
DB = "nostr_relay/storage/db.py"
BASE = "nostr_relay/storage/base.py"

MUTANTS = [
    M("c19-clientid-relabel", "nostr_relay/util.py", "    def __hash__(self):\n        return hash(self._idstr)\n", "    def __hash__(self):\n        return hash(self._idstr)\n\n    def label(self, text):\n        self._idstr = text + self._idstr\n", "C19.cleanup"),
    M("c19-nested-quantifier", "nostr_relay/auth.py", "    def get_challenge(self, remote_addr):", "    def _host_ok(self, url):\n        import re\n\n        return re.fullmatch(r\"wss?://(?:[a-z0-9-]+\\.?)+\", url) is not None\n\n    def get_challenge(self, remote_addr):", "C19.regex"),
    M("c19-average-frame-size", "nostr_relay/web.py", "    return sent\n", "    log.debug(\"avg %d\", sent // n_frames)\n    return sent\n", "C19.arith"),
    M("c19-authenticate-returns-none", "nostr_relay/auth.py", "        if not isinstance(auth_event_json, dict):\n            raise AuthenticationError(\"Invalid\")", "        if not isinstance(auth_event_json, dict):\n            return None", "C19.token"),
    M("c19-cleanup-per-command-table", "nostr_relay/rate_limiter.py", "                if (not ts) or (now - ts[0]) > max_interval:", "                if (not ts) or (now - ts[0]) > {c: max(r)[0] for c, r in self.rules[\"ip\"].items()}[cmd]:", "C19.limiter"),
    M("c19-cleanup-unguarded", "nostr_relay/web.py", "        if rate_limiter:\n            rate_limiter.cleanup()\n", "        rate_limiter.cleanup()\n", "C19.none"),
    M("c19-no-catch-all", WEB, "            except Exception:\n                log.exception(\"client loop\")\n                await ws_close(code=1013)\n                break\n", "", "C19.contain", canary=True),
    M("c19-catch-all-continue", WEB, "                log.exception(\"client loop\")\n                await ws_close(code=1013)\n                break", "                log.exception(\"client loop\")\n                continue", "C19.contain"),
    M("c19-recv-outside-try", WEB, "        while True:\n            try:\n                async with timeout(message_timeout):\n                    message = json_loads(await ws_recv())\n",
      "        while True:\n            raw = await ws_recv()\n            try:\n                async with timeout(message_timeout):\n                    message = json_loads(raw)\n", "C19.contain"),
    M("c19-short-length", WEB, "    if len(message) < 2:", "    if len(message) < 1:", "C19.shape"),
    M("c19-message-3", WEB, "                    sub_id = str(message[1])\n                    await storage.unsubscribe", "                    sub_id = str(message[2])\n                    await storage.unsubscribe", "C19.shape"),
    M("c19-finally-order", WEB, "    finally:\n        await storage.unsubscribe(client_id)\n        sent = 0\n", "    finally:\n        sent = 0\n", "C19.cleanup"),
    M("c19-clientid-eq", "nostr_relay/util.py", "    def __str__(self):\n        return self._idstr\n", "    def __str__(self):\n        return self._idstr\n\n    def __eq__(self, other):\n        return isinstance(other, ClientID) and self._idstr == other._idstr\n", "C19.cleanup"),
    M("c19-bare-acquire", DB, "                async with self.query_slot:\n                    async with self.db.connect() as conn:\n                        async with conn.stream(query) as result:\n                            async for row in result:\n                                yield event_from_tuple(row)\n                                counter[\"count\"] += 1\n",
      "                await self.query_slot.acquire()\n                async with self.db.connect() as conn:\n                    async with conn.stream(query) as result:\n                        async for row in result:\n                            yield event_from_tuple(row)\n                            counter[\"count\"] += 1\n                self.query_slot.release()\n", "C19.slots"),
    M("c19-bounded-queue", WEB, "subscription_queue = asyncio.Queue()", "subscription_queue = asyncio.Queue(maxsize=256)", "C19.queue"),
    M("c19-filter-attrerror", BASE, "        except AttributeError:\n            raise StorageError(\"not a query\")\n", "        except AttributeError:\n            pass\n", "C19.filters"),
]

EQUIVS = [
    E("c19-eq-acquire-try-finally", DB, "        async with self.query_slot:\n            async with self.db.connect() as conn:\n                result = await conn.execute(\n                    sa.select(self.EventTable).where(\n                        self.EventTable.c.id == bytes.fromhex(event_id)\n                    )\n                )\n                row = result.first()\n",
      "        await self.query_slot.acquire()\n        try:\n            async with self.db.connect() as conn:\n                result = await conn.execute(\n                    sa.select(self.EventTable).where(\n                        self.EventTable.c.id == bytes.fromhex(event_id)\n                    )\n                )\n                row = result.first()\n        finally:\n            self.query_slot.release()\n"),
]

# functions whose syntactic mutants are used for the thorough tier's sensitivity figure (sa/automut.py)
ANCHORS = [
    "nostr_relay.web:start_client",
    "nostr_relay.web:validate_message",
    "nostr_relay.storage.base:NostrQuery.model_validate",
    "nostr_relay.storage.db:DBStorage.run_query",
]
