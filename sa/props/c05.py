"""C05 - a new event reaches exactly the matching open subscriptions, once each.

  C05.registry   the subscription registry (`.clients`) is mutated only by BaseStorage.subscribe / unsubscribe; a subscription is entered
                 after start(); the registry key has identity equality
  C05.snapshot   notify_all_connected: no await between reading the registry and creating the notify tasks, none inside the fan-out loops
  C05.once       exactly one `create_task(sub.notify(event))` per (client, subscription): unconditional, directly in the inner loop
  C05.broadcast  placement of the broadcast in both add_event closures (after commit / after enqueue, iff new) - shared with C06
  C05.coverage   live matcher consumes the same filter fields as the stored matchers, with presence tests that keep the legal value 0;
                 notify delivers iff check_event is truthy, exactly (self.sub_id, event), on this subscription's own filters
  C05.liveness   typestate: no delivery after close (shared with C13)
"""
from __future__ import annotations

import ast

from ..cfg import cfg_of
from ..core import (
    AnalysisError,
    ancestors,
    call_name,
    dotted,
    enclosing_stmt,
    finding_at,
    finding_func,
    norm,
    own_calls,
    own_nodes,
    qual_of,
    walk_no_nested,
)
from ..lib import NORMAL, all_calls, func_of, must_pass, stores_of, strip_await, test_edges
from ..selftest import E, M
from . import c06, c13

P = "C05"
MUTATORS = {"setdefault", "pop", "popitem", "clear", "update", "__setitem__", "__delitem__"}


def rule_registry(program, ctx, prop=P, rid="C05.registry"):
    ctx.rule(
        rid,
        "every write to `.clients` (subscript assignment/deletion, setdefault/pop/clear/update, rebinding) or to a per-client dict obtained "
        "from it happens in BaseStorage.subscribe / unsubscribe / __init__; in subscribe the insertion `subs[sub_id] = sub` comes after "
        "`sub.start()`; other modules only read the registry",
        floor=4,
    )
    owners = {"BaseStorage.subscribe", "BaseStorage.unsubscribe", "BaseStorage.__init__"}
    for m in program.modules.values():
        if m.rel.startswith("<dep>"):
            continue
        for n in ast.walk(m.tree):
            hit = None
            if isinstance(n, (ast.Assign, ast.AugAssign, ast.Delete, ast.AnnAssign)):
                tg = n.targets if isinstance(n, (ast.Assign, ast.Delete)) else [n.target]
                for t in tg:
                    if isinstance(t, ast.Attribute) and t.attr == "clients":
                        hit = "rebinds .clients"
                    if isinstance(t, ast.Subscript) and ".clients" in "." + dotted(t.value):
                        hit = "writes into .clients"
                    if isinstance(t, ast.Subscript) and isinstance(t.value, ast.Name):
                        f = func_of(n)
                        if f is not None:
                            for d in stores_of(f, t.value.id):
                                if isinstance(d, ast.Assign) and ".clients" in ast.unparse(d.value):
                                    hit = f"writes into `{t.value.id}` (a dict of .clients)"
            elif isinstance(n, ast.Call) and isinstance(n.func, ast.Attribute) and n.func.attr in MUTATORS and dotted(n.func.value).endswith("clients"):
                hit = f".clients.{n.func.attr}()"
            if hit:
                q = qual_of(n)
                if q in owners:
                    ctx.ok(rid, n, f"{hit} in {q}")
                else:
                    ctx.bad(finding_at(prop, rid, n, f"{q} {hit}: the registry of open subscriptions is changed outside subscribe/unsubscribe"))
    sub = program.func("nostr_relay.storage.base:BaseStorage.subscribe")
    cfg = cfg_of(sub)
    ins = cfg.stmt_nodes(lambda s: isinstance(s, ast.Assign) and any(isinstance(t, ast.Subscript) and "sub_id" in ast.unparse(t.slice) for t in s.targets), kinds=("stmt",))
    starts = {n: set(NORMAL) for n in cfg.stmt_nodes(lambda s: any(isinstance(c.func, ast.Attribute) and c.func.attr == "start" for c in own_calls(s)), kinds=("stmt",))}
    for i in ins:
        if must_pass(cfg, starts, [i]):
            ctx.bad(finding_at(prop, rid, cfg.ast_of(i), "a subscription is registered before/without start(): it receives live events although its stored query never runs (no EOSE)"))
        else:
            ctx.ok(rid, cfg.ast_of(i), "registered after sub.start()")
    # WeakKeyDictionary keyed by the per-connection object
    init = program.func("nostr_relay.storage.base:BaseStorage.__init__")
    if any(isinstance(s, ast.Assign) and dotted(s.targets[0]) == "self.clients" and "WeakKeyDictionary" in ast.unparse(s.value) for s in ast.walk(init)):
        ctx.ok(rid, init, "registry = WeakKeyDictionary keyed by the connection's ClientID object")
    ci = program.cls("nostr_relay.util:ClientID")
    if "__eq__" in ci.methods and not any(isinstance(c, ast.Compare) and isinstance(c.ops[0], ast.Is) for c in ast.walk(ci.methods["__eq__"])):
        ctx.bad(finding_func(prop, rid, ci.methods["__eq__"], "ClientID has value equality: two connections with colliding id strings share one registry entry", text="def __eq__(...)"))
    else:
        ctx.ok(rid, ci.node, "ClientID keeps identity equality")


def rule_snapshot(program, ctx):
    rid = ctx.rule(
        "C05.snapshot",
        "notify_all_connected: no CFG path leads from a statement that reads the registry, through an await, to the creation of a notify "
        "task (the set of open subscriptions is read after the last suspension point, so CLOSE/REQ/disconnect processed during a wait are "
        "honoured and the dict is not mutated under the iteration)",
        floor=1,
    )
    fn = program.func("nostr_relay.storage.base:BaseStorage.notify_all_connected")
    cfg = cfg_of(fn)

    def reads_registry(s):
        return any(isinstance(n, ast.Attribute) and n.attr == "clients" for n in own_nodes(s))

    def has_await(s):
        return isinstance(s, (ast.AsyncFor, ast.AsyncWith)) or any(isinstance(n, ast.Await) for n in own_nodes(s))

    def makes_task(s):
        return any(isinstance(c, ast.Call) and call_name(c).endswith("create_task") and "notify" in ast.unparse(c) for c in own_nodes(s))

    R = cfg.stmt_nodes(reads_registry)
    A = cfg.stmt_nodes(has_await)
    T = cfg.stmt_nodes(makes_task)
    if not R or not T:
        ctx.bad(finding_func(P, rid, fn, "notify_all_connected no longer reads the registry / creates notify tasks", text="def notify_all_connected(...)"))
        return
    bad = False
    for r in R:
        after_r = cfg.reach(list(cfg.succ(r, kinds=NORMAL)), kinds=NORMAL)
        for a in A:
            if a in after_r or a == r:
                after_a = cfg.reach(list(cfg.succ(a, kinds=NORMAL)), kinds=NORMAL)
                hit = [t for t in T if t in after_a]
                # a later, fresh read between the await and the task creation repairs staleness only if the task loop iterates that read
                for t in hit:
                    loop_reads = [x for x in R if x in after_a and (t in cfg.reach([x], kinds=NORMAL))]
                    fresh = any(isinstance(cfg.ast_of(x), (ast.For,)) for x in loop_reads)
                    if a != r and not fresh or a == r:
                        bad = True
                        ctx.bad(finding_at(P, rid, cfg.ast_of(a), "the fan-out suspends between reading the open subscriptions and creating their notify tasks: a subscription "
                                           "closed/replaced/disconnected during the wait still gets the event, one opened in it misses it", text=norm(cfg.ast_of(r), 60)))
    # no suspension point inside a loop that iterates the live registry
    for loop in walk_no_nested(fn):
        if isinstance(loop, ast.For) and any(isinstance(n, ast.Attribute) and n.attr == "clients" for n in ast.walk(loop.iter)):
            for n in ast.walk(ast.Module(body=loop.body, type_ignores=[])):
                if isinstance(n, (ast.Await, ast.AsyncFor, ast.AsyncWith)):
                    bad = True
                    ctx.bad(finding_at(P, rid, n, "an await inside the loop over the live registry: REQ/CLOSE/disconnect handled during the suspension mutate the dict "
                                       "under iteration (RuntimeError, or subscriptions skipped / visited twice)"))
    if not bad:
        ctx.ok(rid, fn, "registry read after the last await; no await inside the fan-out loops")


def rule_once(program, ctx):
    rid = ctx.rule(
        "C05.once",
        "notify_all_connected: `create_task(<sub>.notify(event))` is a statement directly in the body of `for sub in client.values()` nested in "
        "`for client in self.clients.values()`, with `event` the function's parameter: no condition, break or continue around it; it is the only "
        "place that schedules BaseSubscription.notify",
        floor=1,
    )
    fn = program.func("nostr_relay.storage.base:BaseStorage.notify_all_connected")
    evp = fn.args.args[1].arg
    tasks = [c for c in walk_no_nested(fn) if isinstance(c, ast.Call) and call_name(c).endswith("create_task") and "notify" in ast.unparse(c)]
    if len(tasks) != 1:
        ctx.bad(finding_func(P, rid, fn, f"{len(tasks)} task-creation sites for notify in the fan-out (must be exactly one)", text="def notify_all_connected(...) :: sites"))
    for c in tasks:
        inner = c.args[0] if c.args else None
        # iteration context: enclosing comprehension generators (innermost first is last) and for statements
        levels = []  # outermost first: (target, iter, filtered?)
        conds = []
        for a in ancestors(c):
            if isinstance(a, (ast.GeneratorExp, ast.ListComp, ast.SetComp)):
                for g in reversed(a.generators):
                    levels.insert(0, (g.target, g.iter, bool(g.ifs)))
            elif isinstance(a, ast.For):
                levels.insert(0, (a.target, a.iter, False))
            elif isinstance(a, (ast.If, ast.Try, ast.While, ast.IfExp)) and levels:
                conds.append(a)
            elif isinstance(a, (ast.If, ast.Try, ast.While, ast.IfExp)):
                # a condition between the task creation and its loops
                conds.append(a)
            if a is fn:
                break
        # only conditions *inside* the loops matter
        inside_conds = [x for x in conds if any(isinstance(p, (ast.For, ast.GeneratorExp, ast.ListComp, ast.SetComp)) for p in ancestors(x) if p is not fn and any(p is q for q in ancestors(c)))]
        shape_ok = (
            len(levels) == 2
            and ast.unparse(levels[0][1]) == "self.clients.values()"
            and isinstance(levels[1][1], ast.Call) and isinstance(levels[1][1].func, ast.Attribute) and levels[1][1].func.attr == "values"
            and isinstance(levels[0][0], ast.Name) and dotted(levels[1][1].func.value) == levels[0][0].id
        )
        callee_ok = (
            isinstance(inner, ast.Call) and isinstance(inner.func, ast.Attribute) and inner.func.attr == "notify"
            and isinstance(inner.func.value, ast.Name) and shape_ok and inner.func.value.id == getattr(levels[1][0], "id", None)
            and len(inner.args) == 1 and isinstance(inner.args[0], ast.Name) and inner.args[0].id == evp
        )
        skipping = [n for a in ancestors(c) if isinstance(a, ast.For) for n in ast.walk(a) if isinstance(n, (ast.Break, ast.Continue, ast.Return))]
        filtered = any(l[2] for l in levels)
        if not shape_ok:
            ctx.bad(finding_at(P, rid, c, "notify tasks are not created by iterating `self.clients.values()` and, nested, `<client>.values()` directly "
                               "(the set of subscriptions notified is not the live registry)"))
        elif not callee_ok:
            ctx.bad(finding_at(P, rid, c, "the task does not run `<inner loop variable>.notify(<event parameter>)`"))
        elif inside_conds or skipping or filtered:
            ctx.bad(finding_at(P, rid, c, "the notify task is created conditionally (or the loop can break/continue): some open subscriptions are skipped"))
        else:
            ctx.ok(rid, c, "one notify task per (client, subscription), unconditional")
    others = []
    for m, c in all_calls(program):
        if isinstance(c.func, ast.Attribute) and c.func.attr == "notify" and qual_of(c) != "BaseStorage.notify_all_connected":
            recv = dotted(c.func.value)
            if recv in ("sub", "subscription") or recv.endswith(".sub"):
                others.append(c)
    for c in others:
        ctx.bad(finding_at(P, rid, c, "BaseSubscription.notify is scheduled outside notify_all_connected: a subscription can be notified twice"))
    if not others:
        ctx.ok(rid, fn, "no other caller of <subscription>.notify")


FIELDS = ("ids", "authors", "kinds", "since", "until", "tags")
GE0 = ("since", "until")


def rule_coverage(program, ctx):
    rid = ctx.rule(
        "C05.coverage",
        "BaseSubscription.check_event: each of ids/authors/kinds/since/until/tags has a presence test whose body adds a verdict to the per-filter "
        "set; since/until (declared ge=0, so 0 is legal) are tested with `is not None`, not truthiness; the verdict is `matched and all(matched)` "
        "per filter; notify puts exactly (self.sub_id, event) iff check_event(event, self.filters) is truthy",
        floor=4,
    )
    from ..lib import live_matcher

    fn, qv, ev, loop = live_matcher(program)
    scope = loop if loop is not None else fn
    for f in FIELDS:
        from ..lib import expand_aliases
        tests = [n for n in ast.walk(scope) if isinstance(n, ast.If) and any(isinstance(a, ast.Attribute) and a.attr == f and dotted(a.value) == qv for a in ast.walk(expand_aliases(fn, n.test)))]
        if not tests and f not in GE0:
            # iterating the member is a presence test as well (`for name, values in query.tags or ():` runs zero times for None / [])
            tests = [n for n in ast.walk(scope) if isinstance(n, ast.For) and any(isinstance(a, ast.Attribute) and a.attr == f and dotted(a.value) == qv for a in ast.walk(expand_aliases(fn, n.iter)))]
        if not tests:
            ctx.bad(finding_func(P, rid, fn, f"the live matcher ignores the filter's `{f}`: events that the stored query would not return are pushed live", text=f"def check_event(...) :: {f}"))
            continue
        t = tests[0]
        adds = [c for s in t.body for c in ast.walk(s) if isinstance(c, ast.Call) and isinstance(c.func, ast.Attribute) and c.func.attr == "add"]
        uses_event = any(isinstance(a, ast.Name) and a.id == ev for c in adds for a in ast.walk(c))
        if not adds or not uses_event:
            ctx.bad(finding_at(P, rid, t, f"`{f}` is tested but contributes no verdict about the event", text=f))
            continue
        if f in GE0:
            tt = ast.unparse(expand_aliases(fn, t.test))
            if tt == f"{qv}.{f} is not None" or tt == f"{qv}.{f} != None":
                ctx.ok(rid, t, f"{f}: `is not None` presence test (0 is honoured)")
            else:
                ctx.bad(finding_at(P, rid, t, f"`{f}` is a legal bound at 0 (declared ge=0) but is tested by truthiness (`{tt}`): a filter with {f}=0 is enforced by "
                                   "both stored matchers and ignored by the live matcher", text=f))
        else:
            ctx.ok(rid, t, f"{f}: presence test + verdict")
    # per-filter verdict:  S and all(S)   (as an `if …: return True` or as the returned expression)
    sets = {s_.targets[0].id for s_ in ast.walk(scope) if isinstance(s_, ast.Assign) and isinstance(s_.targets[0], ast.Name) and isinstance(s_.value, ast.Call) and call_name(s_.value) == "set" and not s_.value.args}
    verdict_ok = False
    from ..lib import guard_atoms
    for n in ast.walk(scope):
        txts = None
        if isinstance(n, ast.Return) and isinstance(n.value, ast.Constant) and n.value.value is True:
            # the conditions under which `return True` is reached inside the per-filter scope
            at = guard_atoms(n, stop=scope)
            if all(pol for _, pol in at):
                txts = {ast.unparse(e) for e, _ in at}
        elif isinstance(n, ast.Return) and n.value is not None and not isinstance(n.value, ast.Constant) and loop is None:
            e = n.value
            if isinstance(e, ast.BoolOp) and isinstance(e.op, ast.And):
                txts = {ast.unparse(v) for v in e.values}
        if txts is not None and len(txts) == 2:
            for sv in sets:
                if f"all({sv})" in txts and (txts - {f"all({sv})"}) <= {sv, f"bool({sv})", f"len({sv}) > 0", f"len({sv})"}:
                    verdict_ok = True
    if verdict_ok:
        ctx.ok(rid, scope, "filter matches iff every present condition holds (and at least one is present)")
    else:
        ctx.bad(finding_func(P, rid, fn, "the per-filter verdict is no longer `matched and all(matched)`", text="def check_event(...) :: verdict"))
    if not sets:
        ctx.bad(finding_at(P, rid, scope, "the verdict set is not reset per filter: conditions of one filter leak into the next"))
    nf = program.func("nostr_relay.storage.base:BaseSubscription.notify")
    cfg = cfg_of(nf)
    m_names = {s.targets[0].id for s in walk_no_nested(nf) if isinstance(s, ast.Assign) and isinstance(s.value, ast.Call) and call_name(s.value) == "self.check_event" and isinstance(s.targets[0], ast.Name)}
    call = next((c for c in walk_no_nested(nf) if isinstance(c, ast.Call) and call_name(c) == "self.check_event"), None)
    evn = nf.args.args[1].arg
    if call is None or not (len(call.args) == 2 and dotted(call.args[0]) == evn and dotted(call.args[1]) == "self.filters"):
        ctx.bad(finding_func(P, rid, nf, "notify does not evaluate check_event(event, self.filters)", text="def notify(...) :: check_event"))
    puts = cfg.stmt_nodes(lambda s: any(call_name(c).endswith("queue.put") for c in own_calls(s)), kinds=("stmt",))
    passes = test_edges(cfg, lambda e, p: p and ((isinstance(e, ast.Name) and e.id in m_names) or (isinstance(e, ast.Call) and call_name(e) == "self.check_event")))
    for p_ in puts:
        st = cfg.ast_of(p_)
        c = next(c for c in own_calls(st) if call_name(c).endswith("queue.put"))
        payload_ok = c.args and isinstance(c.args[0], ast.Tuple) and len(c.args[0].elts) == 2 and dotted(c.args[0].elts[0]) == "self.sub_id" and dotted(c.args[0].elts[1]) == evn and call_name(c) == "self.queue.put"
        if must_pass(cfg, passes, [p_]):
            ctx.bad(finding_at(P, rid, st, "the event is queued without check_event having matched"))
        elif not payload_ok:
            ctx.bad(finding_at(P, rid, st, "notify queues something other than (self.sub_id, event) on self.queue"))
        else:
            ctx.ok(rid, st, "queue.put((self.sub_id, event)) iff check_event matched")
    # a match must not be dropped: from a truthy match every normal path reaches the put (except the output validator veto)
    if puts:
        def veto(e, p):
            return isinstance(e, ast.Call) and "check_output" in ast.unparse(e.func) and not p
        vetoes = test_edges(cfg, veto)
        for n, edges in passes.items():
            for m in cfg.succ(n):
                if cfg.edge_kinds(n, m) & edges:
                    path = cfg.find_path([m], [cfg.exit], avoid_nodes=puts, kinds=NORMAL, avoid_edge_kinds=vetoes)
                    if path:
                        ctx.bad(finding_at(P, rid, cfg.ast_of(n), "a matching event can leave notify without being queued (other than by the output validator's veto)", path=cfg.describe_path(path)))
                    else:
                        ctx.ok(rid, cfg.ast_of(n), "matched => queued (unless vetoed by check_output)")


def rule_deliver(program, ctx, prop=P, rid="C05.deliver"):
    ctx.rule(
        rid,
        "BaseSubscription.notify: the only ways to leave without queueing the event are a falsy check_event verdict and a falsy output-validator verdict - no other early "
        "exit (e.g. on the state of the subscription's own query task: an event accepted while the stored query is still running is in neither the snapshot nor the "
        "live stream)",
        floor=1,
    )
    fn = program.func("nostr_relay.storage.base:BaseSubscription.notify")
    cfg = cfg_of(fn)
    puts = cfg.stmt_nodes(lambda s: any(call_name(c).endswith("queue.put") or call_name(c).endswith("queue.put_nowait") for c in own_calls(s)), kinds=("stmt",))
    if not puts:
        ctx.bad(finding_func(prop, rid, fn, "notify no longer queues the event", text="def notify(...) :: put"))
        return
    m_names = {s.targets[0].id for s in walk_no_nested(fn) if isinstance(s, ast.Assign) and isinstance(s.targets[0], ast.Name) and isinstance(s.value, ast.Call) and call_name(s.value) == "self.check_event"}

    def refusal(e, pol):
        # the falsy side of the match verdict / of the output validator
        if (isinstance(e, ast.Name) and e.id in m_names) or (isinstance(e, ast.Call) and call_name(e) == "self.check_event"):
            return not pol
        if isinstance(e, ast.Call) and "check_output" in ast.unparse(e.func):
            return not pol
        return False

    allowed = test_edges(cfg, refusal)
    for p in puts:
        allowed[p] = set(NORMAL)
    path = must_pass(cfg, allowed, [cfg.exit], kinds=NORMAL)
    if path:
        where = next((cfg.ast_of(n) for n in path if cfg.ast_of(n) is not None and cfg.kind_of(n) == "test"), fn)
        ctx.bad(finding_at(prop, rid, where, "notify can return without delivering although the event matches and the output validator does not object: " + " -> ".join(cfg.describe_path(path)[:4])))
    else:
        ctx.ok(rid, fn, "an event is dropped only for `no match` or a refusing output validator")


def rule_livefilters(program, ctx, prop=P, rid="C05.filters"):
    from ..lib import guard_atoms

    ctx.rule(
        rid,
        "the filters used for live matching are the filters of the stored query: Subscription.build_query appends *every* evaluated filter to the list prepare() installs "
        "as self.filters (no condition on the append - e.g. dropping filters whose `until` is in the past makes a back-dated event match the stored query but not the live one)",
        floor=1,
    )
    fn = program.func("nostr_relay.storage.db:Subscription.build_query")
    loop = next((l for l in walk_no_nested(fn) if isinstance(l, ast.For) and "filters" in ast.unparse(l.iter)), None)
    if loop is None:
        raise AnalysisError("build_query: filter loop not found")
    ret = next((r for r in walk_no_nested(fn) if isinstance(r, ast.Return) and isinstance(r.value, ast.Tuple) and len(r.value.elts) == 2), None)
    lst = dotted(ret.value.elts[1]) if ret is not None else "new_filters"
    apps = [c for c in ast.walk(loop) if isinstance(c, ast.Call) and isinstance(c.func, ast.Attribute) and c.func.attr == "append" and dotted(c.func.value) == lst]
    if not apps:
        ctx.bad(finding_at(prop, rid, loop, f"no filter is appended to `{lst}` (the live filter list)"))
    for c in apps:
        atoms = guard_atoms(c, stop=loop)
        if atoms:
            e, pol = atoms[0]
            ctx.bad(finding_at(prop, rid, c, f"a filter only becomes a live filter when `{'' if pol else 'not '}{ast.unparse(e)[:60]}`: events that the stored query of that filter returns are not pushed live"))
        else:
            ctx.ok(rid, c, "every evaluated filter is also a live filter")


def rule_schema(program, ctx, prop=P, rid="C05.schema"):
    ctx.rule(
        rid,
        "stored and live matching compare tag values the same way (byte-wise): the `tags` table's name/value columns are plain sa.Text() in every definition "
        "(get_metadata, alembic) - a collation (NOCASE), a case-folding type or a computed column makes the stored query match `Nostr` for `#t: [nostr]` while "
        "BaseSubscription.check_event -> Event.has_tag still compares case-sensitively",
        floor=2,
    )
    n = 0
    for m in program.modules.values():
        if not m.name.startswith("nostr_relay"):
            continue
        for c in ast.walk(m.tree):
            if not (isinstance(c, ast.Call) and call_name(c).split(".")[-1] in ("Table", "create_table") and c.args and isinstance(c.args[0], ast.Constant) and c.args[0].value in ("tags", "tag")):
                continue
            fn_ = next((a for a in ancestors(c) if isinstance(a, (ast.FunctionDef, ast.AsyncFunctionDef))), None)
            for col in c.args:
                if isinstance(col, ast.Call) and call_name(col).split(".")[-1] == "Column" and col.args and isinstance(col.args[0], ast.Constant) and col.args[0].value in ("name", "value") and len(col.args) > 1:
                    n += 1
                    t = col.args[1]
                    if isinstance(t, ast.Name) and fn_ is not None:
                        b = [s_ for s_ in stores_of(fn_, t.id) if isinstance(s_, ast.Assign)]
                        bad = [s_ for s_ in b if not (isinstance(s_.value, ast.Call) and call_name(s_.value).split(".")[-1] in ("Text", "String") and not s_.value.keywords and not s_.value.args)]
                        okv = bool(b) and not bad
                        shown = ast.unparse((bad or b or [t])[0])[:60]
                    else:
                        okv = isinstance(t, ast.Call) and call_name(t).split(".")[-1] in ("Text", "String") and not t.keywords and not t.args
                        shown = ast.unparse(t)[:60]
                    if okv:
                        ctx.ok(rid, col, f"{m.name.split('.')[-1]}: tags.{col.args[0].value} is plain text")
                    else:
                        ctx.bad(finding_at(prop, rid, col, f"tags.{col.args[0].value} is declared as `{shown}`: the stored tag query no longer compares the way the live matcher does"))
    if not n:
        raise AnalysisError("definitions of the tags table not found")


def run(program, ctx):
    from ..lib import rule_awaited

    rule_awaited(program, ctx, P, ANCHORS)
    rule_registry(program, ctx)
    rule_snapshot(program, ctx)
    rule_once(program, ctx)
    c06.rule_broadcast(program, ctx, prop=P, rid="C05.broadcast")
    rule_coverage(program, ctx)
    rule_deliver(program, ctx)
    rule_livefilters(program, ctx)
    c13.rule_liveness(program, ctx, prop=P, rid="C05.liveness")
    c13.rule_replace(program, ctx, prop=P, rid="C05.replace")
    from . import c01

    ridn = ctx.rule("C05.norm", "ids/authors of a filter are normalised by the hex validator (it hands on the lower-cased, checked id): the live matcher compares them "
                    "case-sensitively while the SQL matcher does not, so un-normalised spellings make live and stored matching disagree", floor=1)
    c01._ids_are_hex_ok(program, ctx, ridn, P, lower=True)
    c01.rule_tagindex(program, ctx, prop=P, rid="C05.tagindex")
    c13.rule_subid(program, ctx, prop=P, rid="C05.subid")
    c13.rule_cancel(program, ctx, prop=P, rid="C05.cancel")
    rule_schema(program, ctx)
    ridm = ctx.rule("C05.model", "since/until/kinds/limit are int-typed in the filter model: the SQL builder renders them with %d (truncating) while the live matcher compares exactly - a float bound makes the two disagree", floor=3)
    c01.derive_model_fields(program, ctx, ridm, prop=P)
    c13.rule_every_item_sent(program, ctx, prop=P, rid="C05.sender")
    c13.rule_sender(program, ctx, prop=P, rid="C05.frame")
    from . import c07

    # `if changed: notify_all_connected` sits behind a context manager: one that swallows the body's exception broadcasts an event whose insert was rolled back
    c07.rule_ctxmgr(program, ctx, prop=P, rid="C05.ctxmgr")
    ctx.not_decided += [
        "exactly-once delivery and absence of loss under all interleavings of tasks and connections (schedule exploration is another family)",
        "check_event's set-of-booleans logic being equivalent to the stored predicates for every event (e.g. delegated authors)",
    ]


BASE = "nostr_relay/storage/base.py"
DB = "nostr_relay/storage/db.py"

MUTANTS = [
    M("c05-tags-value-string-50", "nostr_relay/storage/__init__.py", "            sa.Column(\"value\", sa.Text()),", "            sa.Column(\"value\", sa.Text(collation=\"NOCASE\")),", "C05.schema"),
] + [
    M("c05-" + m.id, m.rel, m.old, m.new, "C05.replace", m.where, False, m.count) for m in __import__("sa.props.c13", fromlist=["MUTANTS"]).MUTANTS if m.expect == "C13.replace"
] + [
    M("c05-hex-not-lowered", BASE, "        hexid = hexid.lower()\n        if any(i not in \"abcdef0123456789\" for i in hexid):", "        if any(i not in \"abcdefABCDEF0123456789\" for i in hexid):", "C05.norm"),
    M("c05-await-in-loop", BASE, "                    self._notify_sub_tasks.append(\n                        asyncio.create_task(sub.notify(event))\n                    )\n",
      "                    await asyncio.sleep(0)\n                    self._notify_sub_tasks.append(\n                        asyncio.create_task(sub.notify(event))\n                    )\n", "C05.snapshot", canary=True),
    M("c05-stale-list", BASE, "            if self._notify_sub_tasks:\n                await asyncio.wait(self._notify_sub_tasks)\n                self._notify_sub_tasks.clear()\n            for client in self.clients.values():\n                for sub in client.values():",
      "            clients = list(self.clients.values())\n            if self._notify_sub_tasks:\n                await asyncio.wait(self._notify_sub_tasks)\n                self._notify_sub_tasks.clear()\n            for client in clients:\n                for sub in client.values():", "C05.snapshot"),
    M("c05-web-mutates-registry", "nostr_relay/web.py", "    finally:\n        await storage.unsubscribe(client_id)\n", "    finally:\n        storage.clients.pop(client_id, None)\n", "C05.registry"),
    M("c05-register-before-start", BASE, "            sub.start()\n            subs[sub_id] = sub\n", "            subs[sub_id] = sub\n            if not sub.query_task:\n                return\n            sub.start()\n", "C05.registry"),
    M("c05-conditional-task", BASE, "                for sub in client.values():\n                    self._notify_sub_tasks.append(", "                for sub in client.values():\n                  if sub.query_task is not None and sub.query_task.done():\n                    self._notify_sub_tasks.append(", "C05.once"),
    M("c05-kinds-dropped", BASE, "            if query.kinds is not None:\n                matched.add(event.kind in query.kinds)\n", "", "C05.coverage"),
    M("c05-until-truthy", BASE, "            if query.until is not None:", "            if query.until:", "C05.coverage"),
    M("c05-notify-other-id", BASE, "            await self.queue.put((self.sub_id, event))", "            await self.queue.put((self.client_id, event))", "C05.coverage"),
    M("c05-broadcast-no-changed", DB, "        if changed:\n            await self.notify_all_connected(event)", "        if do_save:\n            await self.notify_all_connected(event)", "C05.broadcast"),
]
EQUIVS = [
    E("c05-eq-comprehension", BASE, "            for client in self.clients.values():\n                for sub in client.values():\n                    self._notify_sub_tasks.append(\n                        asyncio.create_task(sub.notify(event))\n                    )\n                    counter[\"count\"] += 1\n",
      "            self._notify_sub_tasks.extend(\n                asyncio.create_task(sub.notify(event))\n                for client in self.clients.values()\n                for sub in client.values()\n            )\n            counter[\"count\"] += len(self._notify_sub_tasks)\n"),
]

# functions whose syntactic mutants are used for the thorough tier's sensitivity figure (sa/automut.py)
ANCHORS = [
    "nostr_relay.storage.base:BaseStorage.notify_all_connected",
    "nostr_relay.storage.base:BaseSubscription.notify",
    "nostr_relay.storage.base:BaseSubscription.check_event",
    "nostr_relay.storage.base:BaseStorage.subscribe",
    "nostr_relay.storage.base:BaseStorage.unsubscribe",
]
