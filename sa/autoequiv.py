"""Systematic behaviour-preserving variants of the anchor functions (the mirror image of sa/automut.py).

Every transformation below preserves behaviour *by construction*; a property check that reports a new finding (or
refuses to analyse) on such a variant has a false alarm.  Transformations, each applied to one anchor function at a
time, in memory:

  rename-locals   every local variable that is not a parameter, not global/nonlocal and not used by a nested function
                  gets a new name (consistently within the function)
  negate-if       every `if c: A else: B` with a non-empty else becomes `if not c: B else: A`
  temp-test       every `if <call or comparison>:` becomes `_t = <test>; if _t:`  (named temporary)
  early-return    a function body that ends in `if c: <block>` (no else) becomes `if not c: return` + the block

`python3-vt -m sa.autoequiv [Cxx…]` prints the false alarms and exits 1 if there are any; the thorough tier records
the figures in the evidence.
"""
from __future__ import annotations

import ast
import importlib
import sys
from concurrent.futures import ProcessPoolExecutor

from .core import AnalysisError, Program, clone
from .ctx import RunCtx
from .automut import _splice


def _locals_of(fn):
    params = {a.arg for a in fn.args.args + fn.args.kwonlyargs + fn.args.posonlyargs}
    if fn.args.vararg:
        params.add(fn.args.vararg.arg)
    if fn.args.kwarg:
        params.add(fn.args.kwarg.arg)
    stores, shared, nested_used = set(), set(), set()
    todo = list(ast.iter_child_nodes(fn))
    while todo:
        n = todo.pop()
        if isinstance(n, (ast.FunctionDef, ast.AsyncFunctionDef, ast.Lambda, ast.ClassDef)):
            for x in ast.walk(n):
                if isinstance(x, ast.Name):
                    nested_used.add(x.id)
            continue
        if isinstance(n, (ast.Global, ast.Nonlocal)):
            shared.update(n.names)
        if isinstance(n, ast.Name) and isinstance(n.ctx, ast.Store):
            stores.add(n.id)
        if isinstance(n, (ast.ListComp, ast.SetComp, ast.DictComp, ast.GeneratorExp)):
            for x in ast.walk(n):
                if isinstance(x, ast.Name):
                    nested_used.add(x.id)  # comprehension scopes: leave their names alone
            continue
        todo.extend(ast.iter_child_nodes(n))
    return stores - params - shared - nested_used


def t_rename_locals(fn):
    names = _locals_of(fn)
    if not names:
        return None
    m = clone(fn)
    ren = {n: f"{n}_rn" for n in names}

    class R(ast.NodeTransformer):
        def visit_Name(self, node):
            if node.id in ren:
                node.id = ren[node.id]
            return node

        def visit_ExceptHandler(self, node):
            self.generic_visit(node)
            return node

        def _skip(self, node):
            return node

        visit_FunctionDef = _skip
        visit_AsyncFunctionDef = _skip
        visit_Lambda = _skip
        visit_ClassDef = _skip
        visit_ListComp = _skip
        visit_SetComp = _skip
        visit_DictComp = _skip
        visit_GeneratorExp = _skip

    m.body = [R().visit(s) for s in m.body]
    return m


def t_negate_if(fn):
    m = clone(fn)
    changed = [0]

    class R(ast.NodeTransformer):
        def visit_If(self, node):
            self.generic_visit(node)
            if node.orelse and not (len(node.orelse) == 1 and isinstance(node.orelse[0], ast.If)):
                node.test = ast.UnaryOp(op=ast.Not(), operand=node.test)
                node.body, node.orelse = node.orelse, node.body
                changed[0] += 1
            return node

        def _skip(self, node):
            return node

        visit_FunctionDef = _skip
        visit_AsyncFunctionDef = _skip

    m.body = [R().visit(s) for s in m.body]
    ast.fix_missing_locations(m)
    return m if changed[0] else None


def t_temp_test(fn):
    m = clone(fn)
    changed = [0]

    def fix(block):
        out = []
        for s in block:
            if not isinstance(s, (ast.FunctionDef, ast.AsyncFunctionDef, ast.ClassDef)):
                for field in ("body", "orelse", "finalbody"):
                    sub = getattr(s, field, None)
                    if isinstance(sub, list) and sub and isinstance(sub[0], ast.stmt):
                        setattr(s, field, fix(sub))
                if isinstance(s, ast.Try):
                    for h in s.handlers:
                        h.body = fix(h.body)
            if isinstance(s, ast.If) and isinstance(s.test, (ast.Call, ast.Compare, ast.Await)) and not any(isinstance(x, ast.NamedExpr) for x in ast.walk(s.test)):
                changed[0] += 1
                name = f"_t{changed[0]}"
                out.append(ast.copy_location(ast.Assign(targets=[ast.Name(id=name, ctx=ast.Store())], value=s.test, lineno=s.lineno), s))
                s.test = ast.copy_location(ast.Name(id=name, ctx=ast.Load()), s)
            out.append(s)
        return out

    # not inside elif chains (the temporary would be evaluated too early): only ifs that are direct statements of a block
    m.body = fix(m.body)
    ast.fix_missing_locations(m)
    return m if changed[0] else None


def t_early_return(fn):
    if not fn.body or not isinstance(fn.body[-1], ast.If) or fn.body[-1].orelse:
        return None
    if any(isinstance(n, (ast.Yield, ast.YieldFrom)) for n in ast.walk(fn)):
        return None
    m = clone(fn)
    last = m.body[-1]
    guard = ast.copy_location(ast.If(test=ast.UnaryOp(op=ast.Not(), operand=last.test), body=[ast.copy_location(ast.Return(value=None), last)], orelse=[]), last)
    m.body = m.body[:-1] + [guard] + last.body
    ast.fix_missing_locations(m)
    return m


def t_split_and(fn):
    """`if a and b: X` (no else) -> `if a:` / `if b: X`"""
    m = clone(fn)
    changed = [0]

    class R(ast.NodeTransformer):
        def visit_If(self, node):
            self.generic_visit(node)
            if not node.orelse and isinstance(node.test, ast.BoolOp) and isinstance(node.test.op, ast.And) and len(node.test.values) >= 2:
                first, rest = node.test.values[0], node.test.values[1:]
                inner_test = rest[0] if len(rest) == 1 else ast.BoolOp(op=ast.And(), values=rest)
                inner = ast.copy_location(ast.If(test=inner_test, body=node.body, orelse=[]), node)
                node.test = first
                node.body = [inner]
                changed[0] += 1
            return node

        def _skip(self, node):
            return node

        visit_FunctionDef = _skip
        visit_AsyncFunctionDef = _skip

    m.body = [R().visit(s) for s in m.body]
    ast.fix_missing_locations(m)
    return m if changed[0] else None


def _extractable(block):
    for s in block:
        for n in ast.walk(s):
            if isinstance(n, (ast.Return, ast.Break, ast.Continue, ast.Yield, ast.YieldFrom, ast.FunctionDef, ast.AsyncFunctionDef, ast.Lambda, ast.ClassDef, ast.Global, ast.Nonlocal, ast.NamedExpr)):
                return False
            if isinstance(n, (ast.ListComp, ast.SetComp, ast.DictComp, ast.GeneratorExp)):
                return False
    return len(block) >= 1


def _make_extract(k):
    def t(fn):
        """the k-th extractable block (body of an if / for / with / try) becomes a nested closure that is called in its place"""
        m = clone(fn)
        params = {a.arg for a in m.args.args + m.args.kwonlyargs + m.args.posonlyargs}
        cands = []
        for n in ast.walk(m):
            if n is m or isinstance(n, (ast.FunctionDef, ast.AsyncFunctionDef, ast.Lambda, ast.ClassDef)):
                continue
            for field in ("body", "orelse"):
                blk = getattr(n, field, None)
                if isinstance(blk, list) and blk and isinstance(blk[0], ast.stmt) and isinstance(n, (ast.If, ast.For, ast.AsyncFor, ast.With, ast.AsyncWith, ast.Try, ast.While)) and _extractable(blk):
                    # not inside a nested function
                    cands.append((n, field))
        # skip blocks nested in nested defs
        inner_ids = {id(x) for d in ast.walk(m) if d is not m and isinstance(d, (ast.FunctionDef, ast.AsyncFunctionDef, ast.Lambda)) for x in ast.walk(d)}
        cands = [(n, f) for n, f in cands if id(n) not in inner_ids]
        if k >= len(cands):
            return None
        n, field = cands[k]
        blk = getattr(n, field)
        stores = sorted({x.id for s in blk for x in ast.walk(s) if isinstance(x, ast.Name) and isinstance(x.ctx, (ast.Store, ast.Del))} | {h.name for s in blk for h in ast.walk(s) if isinstance(h, ast.ExceptHandler) and h.name})
        if any(nm in params for nm in stores):
            # nonlocal of a parameter is fine in Python, keep it simple anyway
            pass
        is_async = any(isinstance(x, (ast.Await, ast.AsyncFor, ast.AsyncWith)) for s in blk for x in ast.walk(s))
        name = f"_blk{k}"
        body = ([ast.Nonlocal(names=stores)] if stores else []) + blk
        args = ast.arguments(posonlyargs=[], args=[], vararg=None, kwonlyargs=[], kw_defaults=[], kwarg=None, defaults=[])
        d = (ast.AsyncFunctionDef if is_async else ast.FunctionDef)(name=name, args=args, body=body, decorator_list=[], returns=None, type_comment=None)
        if hasattr(d, "type_params"):
            d.type_params = []
        call = ast.Call(func=ast.Name(id=name, ctx=ast.Load()), args=[], keywords=[])
        stmt = ast.Expr(value=ast.Await(value=call) if is_async else call)
        if is_async and not isinstance(m, ast.AsyncFunctionDef):
            return None
        setattr(n, field, [stmt])
        # names that are nonlocal must be bound in the enclosing function before the def: pre-bind unbound ones to None at the top
        bound_before = set(params)
        pre = [ast.Assign(targets=[ast.Name(id=nm, ctx=ast.Store())], value=ast.Constant(value=None)) for nm in stores if nm not in params]
        doc = []
        rest = m.body
        if rest and isinstance(rest[0], ast.Expr) and isinstance(rest[0].value, ast.Constant) and isinstance(rest[0].value.value, str):
            doc, rest = [rest[0]], rest[1:]
        # pre-binding to None would change behaviour for names read before assignment (UnboundLocalError -> None): only do it for names that
        # are *not* otherwise bound earlier; to stay strictly behaviour-preserving we instead require every nonlocal name to be bound somewhere
        # else in the function as well (then `nonlocal` is legal without the pre-binding)
        outer_stores = {x.id for s in rest for x in ast.walk(s) if isinstance(x, ast.Name) and isinstance(x.ctx, ast.Store)} | {h.name for s in rest for h in ast.walk(s) if isinstance(h, ast.ExceptHandler) and h.name}
        if any(nm not in outer_stores and nm not in params for nm in stores):
            return None
        m.body = doc + [d] + rest
        ast.fix_missing_locations(m)
        return m
    return t


def _rewrite_blocks(m, fix):
    """apply fix(list of statements) -> list to every statement list of m (not entering nested defs)"""
    def go(block):
        out = []
        for s in block:
            if not isinstance(s, (ast.FunctionDef, ast.AsyncFunctionDef, ast.ClassDef)):
                for field in ("body", "orelse", "finalbody"):
                    sub = getattr(s, field, None)
                    if isinstance(sub, list) and sub and isinstance(sub[0], ast.stmt):
                        setattr(s, field, go(sub))
                if isinstance(s, ast.Try):
                    for h in s.handlers:
                        h.body = go(h.body)
            out.append(s)
        return fix(out)
    m.body = go(m.body)
    ast.fix_missing_locations(m)
    return m


def t_ifexp_assign(fn):
    """if c: x = A / else: x = B  ->  x = A if c else B"""
    m = clone(fn)
    changed = [0]

    def fix(block):
        out = []
        for s in block:
            if isinstance(s, ast.If) and len(s.body) == 1 and len(s.orelse) == 1 and all(isinstance(b, ast.Assign) and len(b.targets) == 1 and isinstance(b.targets[0], ast.Name) for b in (s.body[0], s.orelse[0])) \
                    and s.body[0].targets[0].id == s.orelse[0].targets[0].id and not any(isinstance(x, (ast.Await, ast.Yield, ast.NamedExpr)) for b in (s.body[0], s.orelse[0]) for x in ast.walk(b)):
                changed[0] += 1
                out.append(ast.copy_location(ast.Assign(targets=[s.body[0].targets[0]], value=ast.IfExp(test=s.test, body=s.body[0].value, orelse=s.orelse[0].value), lineno=s.lineno), s))
            else:
                out.append(s)
        return out

    _rewrite_blocks(m, fix)
    return m if changed[0] else None


def t_split_handlers(fn):
    """except (A, B): BODY  ->  except A: BODY / except B: BODY"""
    m = clone(fn)
    changed = [0]
    for t in [x for x in ast.walk(m) if isinstance(x, ast.Try)]:
        new = []
        for h in t.handlers:
            if isinstance(h.type, ast.Tuple) and h.name is None and len(h.type.elts) > 1:
                changed[0] += 1
                for e in h.type.elts:
                    new.append(ast.copy_location(ast.ExceptHandler(type=e, name=None, body=clone_list(h.body)), h))
            else:
                new.append(h)
        t.handlers = new
    ast.fix_missing_locations(m)
    return m if changed[0] else None


def clone_list(stmts):
    import copy
    return [copy.deepcopy(s) for s in stmts]


def t_de_morgan(fn):
    """if a and b  ->  if not (not a or not b)   (tests of if statements only; same evaluation order and short-circuit)"""
    m = clone(fn)
    changed = [0]

    class R(ast.NodeTransformer):
        def visit_If(self, node):
            self.generic_visit(node)
            t = node.test
            if isinstance(t, ast.BoolOp) and isinstance(t.op, ast.And) and not any(isinstance(x, ast.NamedExpr) for x in ast.walk(t)):
                changed[0] += 1
                node.test = ast.UnaryOp(op=ast.Not(), operand=ast.BoolOp(op=ast.Or(), values=[ast.UnaryOp(op=ast.Not(), operand=v) for v in t.values]))
            return node

        def _skip(self, node):
            return node

        visit_FunctionDef = _skip
        visit_AsyncFunctionDef = _skip

    m.body = [R().visit(s) for s in m.body]
    ast.fix_missing_locations(m)
    return m if changed[0] else None


def t_guard_continue(fn):
    """for …: if c: BODY   (the if is the loop's last statement, no else)  ->  for …: if not c: continue; BODY"""
    m = clone(fn)
    changed = [0]
    for lp in [x for x in ast.walk(m) if isinstance(x, (ast.For, ast.AsyncFor, ast.While))]:
        if lp.body and isinstance(lp.body[-1], ast.If) and not lp.body[-1].orelse and not any(isinstance(x, ast.NamedExpr) for x in ast.walk(lp.body[-1].test)):
            last = lp.body[-1]
            guard = ast.copy_location(ast.If(test=ast.UnaryOp(op=ast.Not(), operand=last.test), body=[ast.copy_location(ast.Continue(), last)], orelse=[]), last)
            lp.body = lp.body[:-1] + [guard] + last.body
            changed[0] += 1
    ast.fix_missing_locations(m)
    return m if changed[0] else None


TRANSFORMS = {"ifexp-assign": t_ifexp_assign, "split-handlers": t_split_handlers, "de-morgan": t_de_morgan, "guard-continue": t_guard_continue, "rename-locals": t_rename_locals, "negate-if": t_negate_if, "temp-test": t_temp_test, "early-return": t_early_return, "split-and": t_split_and}
for _k in range(6):
    TRANSFORMS[f"extract-closure-{_k}"] = _make_extract(_k)
_PROGRAM = None


def _job(args):
    global _PROGRAM
    prop, qual, tname, base_keys = args
    if _PROGRAM is None:
        _PROGRAM = Program()
    fn = _PROGRAM.func_opt(qual)
    if fn is None:
        return (qual, tname, "skipped", "")
    # work on the source text of the module (the normalised tree of the unchanged package is the source itself)
    src_fn = None
    mod = fn._module
    tree = ast.parse(mod.src)
    for n in ast.walk(tree):
        if isinstance(n, (ast.FunctionDef, ast.AsyncFunctionDef)) and n.name == fn.name and n.lineno == fn.lineno:
            src_fn = n
    if src_fn is None:
        return (qual, tname, "skipped", "")
    new = TRANSFORMS[tname](src_fn)
    if new is None:
        return (qual, tname, "n/a", "")
    try:
        new_src = _splice(mod.src, src_fn, new)
        compile(new_src, mod.rel, "exec")
    except Exception as e:
        return (qual, tname, "skipped", f"{type(e).__name__}")
    try:
        program = _PROGRAM.derive({mod.rel: new_src})
        ctx = RunCtx(prop, "quick", program)
        importlib.import_module(f"sa.props.{prop.lower()}").run(program, ctx)
        ctx.check_floors()
        newf = sorted({f.rule for f in ctx.findings if f.key not in base_keys})
        gone = sorted(k for k in base_keys if k not in {f.key for f in ctx.findings})
        if newf:
            return (qual, tname, "false-alarm", ",".join(newf))
        if gone:
            return (qual, tname, "lost-known", ";".join(g.split("|")[1] for g in gone))
        return (qual, tname, "silent", "")
    except AnalysisError as e:
        return (qual, tname, "false-alarm", f"analysis error: {str(e)[:100]}")
    except Exception as e:
        return (qual, tname, "checker-crash", f"{type(e).__name__}: {e}"[:120])


def _rename_job(args):
    """rename an anchor function (definition and every reference in the package) - a full re-read, because renames are undone by the
    program-level normaliser only"""
    prop, qual, base_keys = args
    global _PROGRAM
    if _PROGRAM is None:
        _PROGRAM = Program()
    fn = _PROGRAM.func_opt(qual)
    if fn is None or fn.name.startswith("__"):
        return (qual, "rename-function", "n/a", "")
    old, new = fn.name, fn.name + "_renamed"
    overrides = {}
    for m in _PROGRAM.modules.values():
        if m.rel.startswith("<dep>") or old not in m.src:
            continue
        tree = ast.parse(m.src)
        hit = False
        for n in ast.walk(tree):
            if isinstance(n, (ast.FunctionDef, ast.AsyncFunctionDef)) and n.name == old:
                n.name = new
                hit = True
            elif isinstance(n, ast.Attribute) and n.attr == old:
                n.attr = new
                hit = True
            elif isinstance(n, ast.Name) and n.id == old:
                n.id = new
                hit = True
            elif isinstance(n, ast.alias) and n.name == old:
                n.name = new
                hit = True
        if hit:
            overrides[m.rel] = ast.unparse(tree) + "\n"
    if not overrides:
        return (qual, "rename-function", "n/a", "")
    try:
        program = Program(overrides=overrides)
        ctx = RunCtx(prop, "quick", program)
        importlib.import_module(f"sa.props.{prop.lower()}").run(program, ctx)
        ctx.check_floors()
        newf = sorted({f.rule for f in ctx.findings if f.key not in base_keys})
        if newf:
            return (qual, "rename-function", "false-alarm", ",".join(newf))
        return (qual, "rename-function", "silent", "")
    except AnalysisError as e:
        return (qual, "rename-function", "false-alarm", f"analysis error: {str(e)[:100]}")
    except Exception as e:
        return (qual, "rename-function", "checker-crash", f"{type(e).__name__}: {e}"[:120])


def run_for(prop: str, program: Program, workers: int = 16) -> dict:
    mod = importlib.import_module(f"sa.props.{prop.lower()}")
    anchors = [q for q in getattr(mod, "ANCHORS", []) if program.func_opt(q) is not None and not program.func_opt(q)._module.rel.startswith("<dep>")]
    ctx = RunCtx(prop, "quick", program)
    mod.run(program, ctx)
    base_keys = sorted(f.key for f in ctx.findings)
    jobs = [(prop, q, t, base_keys) for q in anchors for t in TRANSFORMS]
    if not jobs:
        return {"summary": "no anchors"}
    with ProcessPoolExecutor(max_workers=min(workers, len(jobs))) as ex:
        results = list(ex.map(_job, jobs))
        results += list(ex.map(_rename_job, [(prop, q, base_keys) for q in anchors]))
    tally: dict = {}
    for _, _, st, _ in results:
        tally[st] = tally.get(st, 0) + 1
    return {
        "summary": ",".join(f"{k}={v}" for k, v in sorted(tally.items())),
        "note": "behaviour-preserving transformations by construction (consistent renaming of locals, negated if/else, named temporaries for tests, "
                "early return, `a and b` split into nested ifs, a block extracted into a nested closure, the function itself renamed package-wide) of each anchor function; a new finding or an analysis error on a variant is a false alarm of the check; 'lost-known' = a "
                "known finding's key changed (the defect would be reported as new)",
        "results": [{"function": q, "transformation": t, "status": st, "detail": d} for q, t, st, d in results if st not in ("silent", "n/a")],
        "variants": len([1 for r in results if r[2] not in ("n/a", "skipped")]),
    }


def main(argv=None) -> int:
    from . import check

    props = [p.upper() for p in (argv or sys.argv[1:])] or check.ALL
    program = Program()
    bad = 0
    for p in props:
        try:
            importlib.import_module(f"sa.props.{p.lower()}")
        except ModuleNotFoundError:
            continue
        r = run_for(p, program)
        print(f"[{p}] {r['summary']}")
        for x in r.get("results", []):
            print(f"   {x['status']:12s} {x['transformation']:14s} {x['function'].split(':')[1]}: {x['detail']}")
            if x["status"] in ("false-alarm", "checker-crash", "lost-known"):
                bad += 1
    return 1 if bad else 0


if __name__ == "__main__":
    sys.exit(main())
