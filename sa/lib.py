"""Rule building blocks shared by the property modules."""
from __future__ import annotations

import ast
from typing import Callable, Iterable, Optional

from .cfg import CFG, cfg_of
from .core import (
    AnalysisError,
    FuncNode,
    Program,
    call_name,
    calls_in,
    dotted,
    own_calls,
    own_nodes,
    norm,
    stmt_assigns,
    walk_no_nested,
)

NORMAL = {"n", "t", "f"}


# --------------------------------------------------------------------------
# boolean structure of tests


def implied(test, edge: str) -> list:
    """What is known when ``test`` evaluates to True (edge 't') / False ('f'), as a
    conjunction of clauses; each clause is a list of alternative literals
    ``(expr, polarity)`` of which at least one holds (CNF).

    ``A and B`` true => A, B;  ``A or B`` false => not A, not B;
    ``A and B`` false => (not A) or (not B);  ``A or B`` true => A or B; ``not`` flips.
    """

    def disj(parts):
        acc = [[]]
        for p in parts:
            acc = [a + c for a in acc for c in p]
            if len(acc) > 96:
                return None
        return acc

    def go(e, pol):
        if isinstance(e, ast.UnaryOp) and isinstance(e.op, ast.Not):
            return go(e.operand, not pol)
        if isinstance(e, ast.Constant) and isinstance(e.value, (bool, type(None))):
            # TRUE = no clause, FALSE = one empty clause
            return [] if bool(e.value) == pol else [[]]
        if isinstance(e, ast.BoolOp):
            conj = (isinstance(e.op, ast.And) and pol) or (isinstance(e.op, ast.Or) and not pol)
            parts = [go(v, pol) for v in e.values]
            if conj:
                return [c for p in parts for c in p]
            d = disj(parts)
            return d if d is not None else [[(e, pol)]]
        if isinstance(e, ast.IfExp):
            # (C and A) or (not C and B)
            left = go(e.test, True) + go(e.body, pol)
            right = go(e.test, False) + go(e.orelse, pol)
            d = disj([left, right])
            return d if d is not None else [[(e, pol)]]
        return [[(e, pol)]]

    return go(test, edge == "t")


def strip_await(e):
    while isinstance(e, ast.Await):
        e = e.value
    return e


class _Expand(ast.NodeTransformer):
    def __init__(self, env):
        self.env = env

    def visit_Name(self, node):
        if isinstance(node.ctx, ast.Load) and node.id in self.env:
            from .core import clone

            return ast.copy_location(clone(self.env[node.id]), node)
        return node

    def visit_Lambda(self, node):
        return node


def local_aliases(fn) -> dict:
    """local names bound exactly once in ``fn`` by a plain assignment -> the assigned expression
    (named temporaries: `limiter = self.rate_limiter`, `allowed = await can_do(…)`)"""
    cached = getattr(fn, "_aliases", None)
    if cached is not None:
        return cached
    counts: dict = {}
    vals: dict = {}
    params = {a.arg for a in fn.args.args + fn.args.kwonlyargs}
    for n in walk_no_nested(fn):
        if n is fn:
            continue
        if isinstance(n, (ast.stmt, ast.ExceptHandler)):
            for nm in stmt_assigns(n):
                counts[nm] = counts.get(nm, 0) + 1
            if isinstance(n, ast.Assign) and len(n.targets) == 1 and isinstance(n.targets[0], ast.Name):
                vals[n.targets[0].id] = n.value
    def _ctor(v):
        v = strip_await(v)
        return isinstance(v, ast.Call) and dotted(v.func).split(".")[-1][:1].isupper()

    # constructor results are objects with identity (the admitted Event, a Subscription): never read through them
    env = {k: strip_await(v) for k, v in vals.items() if counts.get(k) == 1 and k not in params and not isinstance(v, (ast.Constant,)) and not _ctor(v)}
    # close the environment (bounded)
    for _ in range(3):
        changed = False
        for k, v in list(env.items()):
            if any(isinstance(x, ast.Name) and x.id in env and x.id != k for x in ast.walk(v)):
                from .core import clone

                nv = _Expand({a: b for a, b in env.items() if a != k}).visit(clone(v))
                env[k] = nv
                changed = True
        if not changed:
            break
    try:
        fn._aliases = env
    except Exception:
        pass
    return env


def expand_aliases(fn, expr):
    env = local_aliases(fn)
    if not env or not any(isinstance(x, ast.Name) and x.id in env for x in ast.walk(expr)):
        return expr
    from .core import clone

    return _Expand(env).visit(clone(expr))


def test_edges(cfg: CFG, atom_pred: Callable[[ast.AST, bool], bool]) -> dict:
    """node -> set of branch kinds on which the gate is known to have passed: some clause
    of what the edge implies consists only of literals satisfying ``atom_pred(expr, polarity)``.
    Named temporaries bound once are read through (the test is expanded before it is analysed)."""
    out: dict = {}
    fn = cfg.fn
    for n, d in cfg.g.nodes(data=True):
        s = d["ast"]
        if (d["kind"] == "test" and isinstance(s, ast.If)) or (
            d["kind"] == "loop" and isinstance(s, ast.While)
        ):
            tests = [s.test]
            ex = expand_aliases(fn, s.test)
            if ex is not s.test:
                tests.append(ex)
            for test in tests:
                for edge in ("t", "f"):
                    for clause in implied(test, edge):
                        if clause and all(atom_pred(strip_await(x), pol) for x, pol in clause):
                            out.setdefault(n, set()).add(edge)
                            break
    return out


def must_pass(cfg: CFG, passes: dict, targets: Iterable[int], kinds=None, start=None) -> list:
    """Witness path from entry to a target that never takes a *passing* edge of a
    gate (``passes``: node -> edge kinds that count as having passed the gate).
    Empty list = every path to the targets passes a gate."""
    return cfg.find_path(
        [cfg.entry if start is None else start],
        targets,
        kinds=kinds,
        avoid_edge_kinds=passes,
    )


# --------------------------------------------------------------------------
# small pattern helpers


def event_var(fn) -> Optional[str]:
    """Name bound by ``E = Event(**<something>)`` in ``fn`` (the admitted event)."""
    for n in walk_no_nested(fn):
        if isinstance(n, ast.Assign) and isinstance(n.value, ast.Call):
            c = n.value
            if call_name(c).split(".")[-1] == "Event" and any(k.arg is None for k in c.keywords):
                if len(n.targets) == 1 and isinstance(n.targets[0], ast.Name):
                    return n.targets[0].id
    return None


def stores_of(fn, name: str) -> list:
    """CFG-statement-level (re)bindings of ``name`` in ``fn`` (nested defs excluded)."""
    out = []
    for n in walk_no_nested(fn):
        if n is fn:
            continue
        if isinstance(n, (ast.stmt, ast.ExceptHandler)) and name in stmt_assigns(n):
            out.append(n)
    return sorted(out, key=lambda x: (x.lineno, x.col_offset))


def call_matches(call: ast.Call, *suffixes: str) -> bool:
    nm = call_name(call)
    return any(nm == s or nm.endswith("." + s) for s in suffixes)


def stmt_has_call(stmt, *suffixes: str) -> Optional[ast.Call]:
    for c in own_calls(stmt):
        if call_matches(c, *suffixes):
            return c
    return None


def first_arg_is(call: ast.Call, name: str, pos=0) -> bool:
    return len(call.args) > pos and isinstance(call.args[pos], ast.Name) and call.args[pos].id == name


def mentions(node, *attr_or_names: str) -> bool:
    for n in ast.walk(node):
        if isinstance(n, ast.Attribute) and n.attr in attr_or_names:
            return True
        if isinstance(n, ast.Name) and n.id in attr_or_names:
            return True
    return False


def admission_effects(cfg: CFG, fn, event_name: Optional[str]) -> list:
    """(node, label) for every statement of ``fn`` that stores, enqueues, post-processes,
    broadcasts or acknowledges the event (C03.1 effect list)."""
    out = []
    for n, d in cfg.g.nodes(data=True):
        s = d["ast"]
        if s is None or d["kind"] in ("with_exit", "handler", "reraise"):
            continue
        for c in own_calls(s):
            nm = call_name(c)
            if nm.endswith(".execute") and mentions(c, "event_insert_query"):
                out.append((n, "insert into events"))
            elif nm.endswith("writer_queue.put") or nm == "writer_queue.put":
                out.append((n, "enqueue to writer thread"))
            elif nm in ("self.post_save", "self.pre_save"):
                out.append((n, nm.split(".")[-1]))
            elif nm.endswith(".notify_all_connected"):
                out.append((n, "local broadcast"))
            elif nm.endswith(".notify_other_processes"):
                out.append((n, "cross-worker announce"))
        if isinstance(s, ast.Return) and s.value is not None and d["kind"] == "stmt":
            out.append((n, "normal return (acknowledgement)"))
    return out


def storage_family(program: Program) -> list:
    base = program.cls("nostr_relay.storage.base:BaseStorage")
    return program.subclasses(base)


def concrete_add_events(program: Program) -> list:
    """Distinct ``add_event`` definitions reachable through the BaseStorage family
    (abstract stub that only raises NotImplementedError excluded)."""
    seen = {}
    for ci in storage_family(program):
        fn = program.resolve_method(ci, "add_event")
        if fn is None:
            continue
        body = [s for s in fn.body if not (isinstance(s, ast.Expr) and isinstance(s.value, ast.Constant))]
        if len(body) == 1 and isinstance(body[0], ast.Raise):
            continue
        seen.setdefault(id(fn), (fn, []))[1].append(ci.qual)
    return list(seen.values())


def resolve_self_call(program: Program, fn, name: str) -> list:
    """Definitions ``self.<name>()`` may dispatch to from method ``fn``: the MRO result
    for every concrete class of the family that inherits ``fn``."""
    cls = fn._class
    if cls is None:
        return []
    ci = program.classes.get(f"{fn._module.name}:{cls.name}")
    if ci is None:
        return []
    out = {}
    for sub in program.subclasses(ci):
        m = program.resolve_method(sub, name)
        if m is not None:
            out[id(m)] = m
    return list(out.values())


def super_chain(program: Program, fn) -> list:
    """For a method that calls ``super().same_name()``: the next definitions in the MRO of
    every class that inherits ``fn``."""
    out = {}
    cls = fn._class
    if cls is None:
        return []
    ci = program.classes.get(f"{fn._module.name}:{cls.name}")
    for sub in program.subclasses(ci):
        mro = program.mro(sub)
        try:
            idx = next(i for i, c in enumerate(mro) if fn.name in c.methods and c.methods[fn.name] is fn)
        except StopIteration:
            continue
        for c in mro[idx + 1:]:
            if fn.name in c.methods:
                out[id(c.methods[fn.name])] = c.methods[fn.name]
                break
    return list(out.values())


def all_calls(program: Program, include_dep=False):
    for m in program.modules.values():
        if m.rel.startswith("<dep>") and not include_dep:
            continue
        for n in ast.walk(m.tree):
            if isinstance(n, ast.Call):
                yield m, n


def func_of(node):
    f = getattr(node, "_func", None)
    while f is not None and not isinstance(f, FuncNode):
        f = getattr(f, "_func", None)
    return f


def in_module_main(node) -> bool:
    """inside ``if __name__ == '__main__':`` at module level"""
    from .core import ancestors

    for a in ancestors(node):
        if isinstance(a, ast.If) and isinstance(a.test, ast.Compare):
            if isinstance(a.test.left, ast.Name) and a.test.left.id == "__name__":
                return True
    return False


def yaml_list(text: str, key: str) -> Optional[list]:
    """Items of the first block list ``key:\\n  - a\\n  - b`` (enough for config.yaml)."""
    lines = text.splitlines()
    for i, ln in enumerate(lines):
        st = ln.strip()
        if st.startswith("#"):
            continue
        if st == f"{key}:":
            indent = len(ln) - len(ln.lstrip())
            items = []
            for nxt in lines[i + 1:]:
                if not nxt.strip() or nxt.strip().startswith("#"):
                    continue
                ind = len(nxt) - len(nxt.lstrip())
                if ind <= indent and not nxt.strip().startswith("- "):
                    break
                if nxt.strip().startswith("- "):
                    items.append(nxt.strip()[2:].strip())
                else:
                    break
            return items
    return None


def const_str_list(node) -> Optional[list]:
    if isinstance(node, (ast.List, ast.Tuple)) and all(
        isinstance(e, ast.Constant) and isinstance(e.value, str) for e in node.elts
    ):
        return [e.value for e in node.elts]
    return None


def live_matcher(program: Program):
    """(function, query variable, event variable, loop-or-None) holding the per-filter body of the in-memory matcher:
    BaseSubscription.check_event itself when it loops over its filters, or the helper it maps over them."""
    ce = program.func("nostr_relay.storage.base:BaseSubscription.check_event")
    params = [a.arg for a in ce.args.args]
    ev, flt = params[1], params[2]
    for l in walk_no_nested(ce):
        if isinstance(l, ast.For) and dotted(l.iter) == flt and isinstance(l.target, ast.Name):
            return ce, l.target.id, ev, l
    # any(self._helper(event, q) for q in filters)  /  [ ... ]
    for c in ast.walk(ce):
        if isinstance(c, (ast.GeneratorExp, ast.ListComp)) and len(c.generators) == 1 and dotted(c.generators[0].iter) == flt and isinstance(c.generators[0].target, ast.Name):
            q = c.generators[0].target.id
            call = c.elt
            if isinstance(call, ast.Call):
                callee = None
                if isinstance(call.func, ast.Attribute) and isinstance(call.func.value, ast.Name) and call.func.value.id in ("self", "cls", "BaseSubscription"):
                    ci = program.cls("nostr_relay.storage.base:BaseSubscription")
                    callee = ci.methods.get(call.func.attr)
                elif isinstance(call.func, ast.Name):
                    callee = program.func_opt(f"nostr_relay.storage.base:{call.func.id}")
                if callee is not None:
                    cparams = [a.arg for a in callee.args.args]
                    static = any(dotted(d) == "staticmethod" for d in callee.decorator_list)
                    if not static and cparams and cparams[0] in ("self", "cls"):
                        cparams = cparams[1:]
                    qv = evv = None
                    for pn, a in zip(cparams, call.args):
                        if dotted(a) == q:
                            qv = pn
                        if dotted(a) == ev:
                            evv = pn
                    if qv and evv:
                        return callee, qv, evv, None
    raise AnalysisError("the in-memory matcher (check_event) neither loops over its filters nor maps a helper over them")


# --------------------------------------------------------------------------
# shared rule: a coroutine-returning call used as a bare statement is an effect that never happens

KNOWN_COROUTINES = {"asyncio.sleep", "asyncio.wait", "asyncio.gather", "asyncio.wait_for"}


def _async_only_names(program: Program) -> set:
    kinds: dict = {}
    for m in program.modules.values():
        if m.rel.startswith("<dep>"):
            continue
        for n in ast.walk(m.tree):
            if isinstance(n, (ast.FunctionDef, ast.AsyncFunctionDef)):
                kinds.setdefault(n.name, set()).add(isinstance(n, ast.AsyncFunctionDef) and not any(isinstance(y, (ast.Yield, ast.YieldFrom)) for y in walk_no_nested(n)))
    return {k for k, v in kinds.items() if v == {True}}


def rule_awaited(program: Program, ctx, prop: str, anchors: list) -> None:
    """``<prop>.awaited``: inside the property's anchor functions, and at every call of one of them anywhere in the
    package, a statement-level call of a coroutine function (all definitions of that method name in the package are
    ``async def``; or the same receiver.method is awaited elsewhere in the same class / function; or a known asyncio
    coroutine) is awaited - a bare ``self.post_save(...)`` only creates a coroutine object: the effect the property
    relies on silently does not happen."""
    from .core import call_name, walk_no_nested, finding_at, qual_of

    rid = ctx.rule(f"{prop}.awaited", "no forgotten await: statement-level calls of coroutine functions in the property's anchor functions (and calls of those functions "
                   "anywhere in the package) are awaited, otherwise the effect (write, broadcast, notification, close) never happens", floor=0)
    fns = [program.func_opt(q) for q in anchors]
    fns = [f for f in fns if f is not None and not f._module.rel.startswith("<dep>")]
    anchor_ids = {id(f) for f in fns}
    anchor_names = {f.name for f in fns if isinstance(f, ast.AsyncFunctionDef)}
    async_only = _async_only_names(program)
    for m in program.modules.values():
        if m.rel.startswith("<dep>"):
            continue
        # receiver.method texts awaited per class / per function
        for fn in [n for n in ast.walk(m.tree) if isinstance(n, (ast.FunctionDef, ast.AsyncFunctionDef))]:
            cls = getattr(fn, "_class", None)
            scope = cls if cls is not None else fn
            awaited_self = {call_name(a.value) for a in ast.walk(scope) if isinstance(a, ast.Await) and isinstance(a.value, ast.Call) and call_name(a.value).startswith("self.")}
            if cls is not None:
                # self.<attr>(…) awaited by a sibling class of the same family (e.g. self.validate_event in DBStorage / LMDBStorage)
                ci = program.classes.get(f"{m.name}:{cls.name}")
                fam = {}
                for root in (program.mro(ci) if ci is not None else []):
                    for sub in program.subclasses(root):
                        fam[sub.qual] = sub
                for sub in fam.values():
                    awaited_self |= {call_name(a.value) for a in ast.walk(sub.node) if isinstance(a, ast.Await) and isinstance(a.value, ast.Call)
                                     and call_name(a.value).startswith("self.") and call_name(a.value).count(".") == 1}
            awaited_local = {call_name(a.value) for a in walk_no_nested(fn) if isinstance(a, ast.Await) and isinstance(a.value, ast.Call) and call_name(a.value) and not call_name(a.value).startswith("self.")}
            for s in walk_no_nested(fn):
                if not (isinstance(s, ast.Expr) and isinstance(s.value, (ast.Call, ast.Await))):
                    continue
                c = s.value.value if isinstance(s.value, ast.Await) else s.value
                if not isinstance(c, ast.Call):
                    continue
                nm = call_name(c)
                if not nm:
                    continue
                last = nm.split(".")[-1]
                relevant = id(fn) in anchor_ids or last in anchor_names
                if not relevant:
                    continue
                coroutine = (
                    nm in KNOWN_COROUTINES
                    or (last in async_only and (nm.startswith("self.") or "storage" in nm or "." not in nm) and (not nm.startswith("self.") or nm.count(".") == 1 or "storage" in nm))
                    or (nm.startswith("self.") and nm in awaited_self)
                    or (not nm.startswith("self.") and nm in awaited_local)
                    or (last == "execute" and isinstance(fn, ast.AsyncFunctionDef) and nm.split(".")[0] in ("conn", "connection"))
                )
                if not coroutine:
                    continue
                if isinstance(s.value, ast.Await):
                    ctx.ok(rid, s, f"`await {nm}(…)`")
                elif isinstance(fn, ast.AsyncFunctionDef) or last in async_only:
                    ctx.bad(finding_at(prop, rid, s, f"`{nm}(…)` returns a coroutine that is never awaited: the call has no effect"))


# --------------------------------------------------------------------------
# guard atoms: the conditions under which a node is evaluated (syntactic: enclosing if/elif/else, while, comprehension ifs,
# preceding operands of and/or, conditional expressions) up to a stop node


def guard_atoms(node, stop=None) -> list:
    """[(expr, polarity)] - literals known to hold whenever ``node`` is evaluated, collected from the enclosing
    branch structure between ``node`` and ``stop`` (a loop or function).  Disjunctive knowledge is kept as a single
    literal (the whole test, polarity).  Early exits (``continue``/``return`` in a preceding sibling if) are included:
    ``if c: continue`` before the statement contributes (c, False)."""
    from .core import ancestors

    out = []

    def add(test, edge):
        for clause in implied(test, edge):
            if len(clause) == 1:
                out.append(clause[0])
            elif clause:
                # a disjunctive clause is kept as one literal `l1 or l2 or …` (independent of how the test spelt it: `not (a and (b or c))` on its
                # false edge and `a and (b or c)` on its true edge give the same atoms)
                alts = [e if pol else ast.UnaryOp(op=ast.Not(), operand=e) for e, pol in clause]
                lit = ast.BoolOp(op=ast.Or(), values=alts)
                ast.copy_location(lit, test)
                ast.fix_missing_locations(lit)
                lit._parent = getattr(test, "_parent", None)
                out.append((lit, True))

    child = node
    for anc in ancestors(node):
        if anc is stop:
            # preceding early exits at the top level of the stop node's body
            _early_exits(anc, child, add)
            break
        if isinstance(anc, ast.If):
            if any(child is s for s in anc.body):
                add(anc.test, "t")
            elif any(child is s for s in anc.orelse):
                add(anc.test, "f")
        elif isinstance(anc, ast.While):
            if any(child is s for s in anc.body):
                add(anc.test, "t")
        elif isinstance(anc, ast.IfExp):
            if child is anc.body:
                add(anc.test, "t")
            elif child is anc.orelse:
                add(anc.test, "f")
        elif isinstance(anc, ast.BoolOp):
            idx = next((i for i, v in enumerate(anc.values) if v is child), None)
            if idx:
                for v in anc.values[:idx]:
                    add(v, "t" if isinstance(anc.op, ast.And) else "f")
        elif isinstance(anc, (ast.ListComp, ast.SetComp, ast.GeneratorExp, ast.DictComp)):
            if child is getattr(anc, "elt", None) or child is getattr(anc, "key", None) or child is getattr(anc, "value", None):
                for g in anc.generators:
                    for c in g.ifs:
                        add(c, "t")
        elif isinstance(anc, ast.comprehension):
            pass
        if isinstance(anc, (ast.FunctionDef, ast.AsyncFunctionDef)):
            _early_exits(anc, child, add)
            break
        _early_exits(anc, child, add)
        child = anc
    return out


def _early_exits(parent, child, add):
    for field in ("body", "orelse", "finalbody"):
        seq = getattr(parent, field, None)
        if isinstance(seq, list) and any(child is s for s in seq):
            for s in seq:
                if s is child:
                    break
                if isinstance(s, ast.If) and not s.orelse and s.body and isinstance(s.body[-1], (ast.Continue, ast.Return, ast.Raise, ast.Break)):
                    add(s.test, "f")


def defining_module(program, modname: str, symbol: str):
    """the package module in which `symbol`, visible in `modname`, is actually bound (follows `from .x import symbol` re-exports)"""
    seen = set()
    m = program.module(modname)
    while m is not None and m.name not in seen:
        seen.add(m.name)
        bound_here = any(
            (isinstance(s, (ast.FunctionDef, ast.AsyncFunctionDef, ast.ClassDef)) and s.name == symbol)
            or (isinstance(s, ast.Assign) and any(isinstance(t, ast.Name) and t.id == symbol for t in s.targets))
            or (isinstance(s, ast.AnnAssign) and isinstance(s.target, ast.Name) and s.target.id == symbol)
            for s in ast.walk(m.tree) if not isinstance(s, ast.expr)
        )
        if bound_here:
            return m
        tgt = program.imports_of(m).get(symbol)
        if not tgt:
            return m
        m2, _, sym = tgt.rpartition(".")
        nxt = program.modules.get(m2)
        if nxt is None:
            return m
        m, symbol = nxt, sym
    return m


def bytes_prefix_of(fn):
    """the literal bytes that precede the first hole of a bytes template / concatenation built in fn (b"\\x00" + x, b"\\x00%s" % x), else None"""
    for b in ast.walk(fn):
        if isinstance(b, ast.BinOp) and isinstance(b.left, ast.Constant) and isinstance(b.left.value, bytes):
            if isinstance(b.op, ast.Mod):
                i = b.left.value.find(b"%s")
                return b.left.value[:i].replace(b"%%", b"%") if i >= 0 else b.left.value
            if isinstance(b.op, ast.Add):
                return b.left.value
    return None



def rule_ge0_truthiness(program, ctx, prop, rid):
    """since / until / limit are legal at 0: nowhere in the storage package may they be tested by truthiness"""
    from .core import finding_at, qual_of, walk_no_nested

    ctx.rule(
        rid,
        "the filter members that are legal at 0 (`since`, `until`, `limit`, declared ge=0) are never tested by truthiness anywhere in the storage package or the connection "
        "handler - not in an `if`, a boolean operator, `any((…))`/`all((…))` or `not x`: a filter whose only condition is `since: 0` is a condition, and `limit: 0` is a limit",
        floor=0,
    )
    GE0 = ("since", "until", "limit")
    n = 0
    for fn in {id(f): f for f in program.functions.values()}.values():
        m = getattr(fn, "_module", None)
        if m is None or not (m.name.startswith("nostr_relay.storage") or m.name == "nostr_relay.web"):
            continue
        for x in walk_no_nested(fn):
            if not (isinstance(x, ast.Attribute) and x.attr in GE0 and isinstance(x.ctx, ast.Load) and isinstance(x.value, ast.Name) and x.value.id not in ("plan", "Config", "self") or
                    (isinstance(x, ast.Attribute) and x.attr in GE0 and isinstance(x.ctx, ast.Load) and isinstance(x.value, ast.Name) and x.value.id == "self" and fn.name in ("is_empty", "__bool__", "__len__"))):
                continue
            par = getattr(x, "_parent", None)
            truthy = (isinstance(par, (ast.If, ast.While, ast.IfExp)) and par.test is x) or (isinstance(par, ast.BoolOp)) or (isinstance(par, ast.UnaryOp) and isinstance(par.op, ast.Not))
            if isinstance(par, (ast.Tuple, ast.List, ast.Set)):
                gp = getattr(par, "_parent", None)
                truthy = isinstance(gp, ast.Call) and isinstance(gp.func, ast.Name) and gp.func.id in ("any", "all")
            if truthy:
                n += 1
                ctx.bad(finding_at(prop, rid, x, f"{qual_of(fn)}: `{ast.unparse(x)}` is tested by truthiness (`{ast.unparse(par)[:60]}`): the legal value 0 is treated as absent"))
    if not n:
        ctx.ok(rid, program.cls("nostr_relay.storage.base:NostrQuery").node, "no truthiness test of since/until/limit")
