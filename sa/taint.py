"""Abstract interpreter for string assembly: which client-derived pieces reach a
sink language (SQL text, generated Python source, JSON frame) and with which sanitiser
mark, at which syntactic position.

Classes (a small lattice, joined pessimistically):
  CONST     constant text / trusted operator configuration
  FRAG      text assembled only from constants and adequately marked holes (safe bare)
  INT       an int, or the decimal text of one
  HEX       text over [0-9a-f] only
  SQD       text in which every ' has been doubled
  SQDC      SQD in which every ':' has also been written '\\:' (what sqlalchemy.text() needs: it reads ':name' as a bind parameter - inside quotes too - and
            strips the backslash of '\\:', so an un-escaped value either fails the statement or is compared as a different string)
  REPR      Python repr() of a validated primitive (closed literal)
  JSON      output of a JSON encoder (closed JSON value)
  RAW       client-controlled text without any mark
  UNKNOWN   not understood (treated as RAW by sink rules)
Containers carry the class of their elements: ("list", cls).
"""
from __future__ import annotations

import ast
from dataclasses import dataclass, field
from typing import Callable, Optional

from .cfg import CFG, cfg_of
from .core import call_name, dotted, enclosing_stmt, own_nodes, stmt_assigns, walk_no_nested

CONST, FRAG, INT, HEX, SQD, REPR, JSON, RAW, UNKNOWN = "CONST", "FRAG", "INT", "HEX", "SQD", "REPR", "JSON", "RAW", "UNKNOWN"
SQDC = "SQDC"
BAD = {RAW, UNKNOWN}


def join(a, b):
    if a is None:
        return b
    if b is None:
        return a
    if a == b:
        return a
    if isinstance(a, tuple) or isinstance(b, tuple):
        if isinstance(a, tuple) and isinstance(b, tuple) and a[0] == b[0]:
            return (a[0], join(a[1], b[1]))
        # a container joined with an empty-constant initialiser
        if a in (CONST, None):
            return b
        if b in (CONST, None):
            return a
        return UNKNOWN
    if "COLON" in (a, b):
        a = RAW if a == "COLON" else a
        b = RAW if b == "COLON" else b
    if RAW in (a, b):
        return RAW
    if UNKNOWN in (a, b):
        return UNKNOWN
    safe_text = {CONST, FRAG, INT, JSON}
    if a in safe_text and b in safe_text:
        return FRAG if FRAG in (a, b) or CONST in (a, b) else INT
    # two different marks: keep neither (e.g. HEX ⊔ SQD)
    return RAW


def elem(c):
    if isinstance(c, tuple):
        return c[1]
    if c in (CONST, None):
        return CONST
    return c if c in (RAW, UNKNOWN) else UNKNOWN


@dataclass
class Hole:
    node: ast.AST  # the interpolated expression
    cls: object
    position: str  # 'quoted' | 'bare'
    conversion: str  # '', 'r', 's', 'd', …
    stmt: ast.AST
    adequate: bool
    why: str = ""


class ReachingDefs:
    """statement-level reaching definitions on the CFG (names only)."""

    def __init__(self, cfg: CFG):
        self.cfg = cfg
        g = cfg.g
        self.defs_at = {}
        for n, d in g.nodes(data=True):
            s = d["ast"]
            if s is not None and d["kind"] in ("stmt", "loop", "with", "handler"):
                names = stmt_assigns(s)
                if names:
                    self.defs_at[n] = names
        self.IN = {n: frozenset() for n in g.nodes}
        out = {n: frozenset() for n in g.nodes}
        work = list(g.nodes)
        while work:
            n = work.pop()
            inn = frozenset().union(*[out[p] for p in g.predecessors(n)]) if g.in_degree(n) else frozenset()
            self.IN[n] = inn
            if n in self.defs_at:
                names = self.defs_at[n]
                o = frozenset(x for x in inn if x[0] not in names) | frozenset((nm, n) for nm in names)
            else:
                o = inn
            if o != out[n]:
                out[n] = o
                work.extend(g.successors(n))
        self.OUT = out

    def reaching(self, stmt, name):
        res = set()
        for n in self.cfg.nodes_of(stmt):
            for nm, d in self.IN[n]:
                if nm == name:
                    res.add(d)
        return res


class Interp:
    """Evaluates expression classes inside one function.

    ``sink``: 'sql' | 'py' | 'json' decides hole adequacy.
    ``fields``: attribute name -> class, for ``<obj>.<field>`` of the validated filter model.
    ``params``: parameter name -> class.
    """

    def __init__(self, fn, sink: str, fields: dict, params: Optional[dict] = None, trusted_self=True, globals_cls: Optional[dict] = None):
        self.fn = fn
        self.sink = sink
        self.fields = fields
        self.params = params or {}
        self.cfg = cfg_of(fn)
        self.rd = ReachingDefs(self.cfg)
        self.holes: list[Hole] = []
        self._memo = {}
        self._stack = set()
        self.trusted_self = trusted_self
        self.globals_cls = dict(globals_cls or {})
        self._add_constant_tables()
        self._containers = None
        self.extra_elems: dict = {}  # container name -> element class contributed by callees
        self.alterations: list = []  # (call, stmt): a client value rewritten by something other than the sink's escaping

    def _add_constant_tables(self):
        """module-level dicts/tuples whose values are literals (never mutated in the module) are data the client does not control:
        TABLE[key] is classified from the literal values (str -> CONST, int -> INT, tuple of those -> element-wise)"""
        mod = getattr(self.fn, "_module", None)
        tree = getattr(mod, "tree", None)
        if tree is None:
            return

        def lit(v):
            if isinstance(v, ast.Constant):
                if isinstance(v.value, bool) or v.value is None or isinstance(v.value, str):
                    return CONST
                if isinstance(v.value, int):
                    return INT
                return CONST
            if isinstance(v, ast.Tuple) and v.elts:
                parts = [lit(x) for x in v.elts]
                return ("tuple", tuple(parts)) if all(p is not None for p in parts) else None
            return None

        mutated = set()
        for n in ast.walk(tree):
            if isinstance(n, ast.Subscript) and isinstance(n.value, ast.Name) and isinstance(n.ctx, (ast.Store, ast.Del)):
                mutated.add(n.value.id)
            if isinstance(n, ast.Call) and isinstance(n.func, ast.Attribute) and isinstance(n.func.value, ast.Name) and n.func.attr in ("update", "setdefault", "pop", "clear", "append", "extend", "insert", "__setitem__"):
                mutated.add(n.func.value.id)
            if isinstance(n, ast.Global):
                mutated.update(n.names)
        for st in tree.body:
            if isinstance(st, ast.Assign) and len(st.targets) == 1 and isinstance(st.targets[0], ast.Name):
                name = st.targets[0].id
                if name in self.globals_cls or name in mutated:
                    continue
                vals = None
                if isinstance(st.value, ast.Dict) and st.value.values:
                    vals = st.value.values
                elif isinstance(st.value, (ast.Tuple, ast.List)) and st.value.elts and all(isinstance(x, ast.Tuple) for x in st.value.elts):
                    vals = st.value.elts
                if not vals:
                    continue
                cls_ = [lit(v) for v in vals]
                if any(c is None for c in cls_):
                    continue
                res = cls_[0]
                same = all(c == res for c in cls_)
                if same:
                    self.globals_cls[name] = ("list", res)

    # ---- containers: flow-insensitive element classes -----------------
    def container_elems(self, name: str):
        if self._containers is None:
            self._containers = {}
            for c in walk_no_nested(self.fn):
                if isinstance(c, ast.Call) and isinstance(c.func, ast.Attribute) and c.func.attr in ("append", "add", "extend", "update", "insert") and isinstance(c.func.value, ast.Name):
                    self._containers.setdefault(c.func.value.id, []).append(c)
        res = None
        for c in self._containers.get(name, []):
            arg = c.args[-1] if c.args else None
            if arg is None:
                continue
            cl = self.cls(arg, enclosing_stmt(c))
            if c.func.attr in ("extend", "update"):
                cl = elem(cl)
            res = join(res, cl)
        return res

    # ---- names ---------------------------------------------------------
    def name_cls(self, name: str, stmt):
        key = ("name", name, id(stmt))
        if key in self._memo:
            return self._memo[key]
        if key in self._stack:
            return None  # cycle: contributes nothing (loop-carried self reference)
        self._stack.add(key)
        res = None
        defs = self.rd.reaching(stmt, name)
        if not defs:
            if name in self.params:
                res = self.params[name]
            elif name in self.globals_cls:
                res = self.globals_cls[name]
            elif name in ("True", "False", "None"):
                res = CONST
            else:
                res = UNKNOWN
        else:
            if name in self.params and any(True for _ in [0]) and self._param_reaches(stmt, name):
                res = join(res, self.params[name])
            for d in defs:
                res = join(res, self.def_cls(d, name))
        cont = self.container_elems(name)
        if name in self.extra_elems:
            cont = join(cont, self.extra_elems[name])
        if cont is not None and (res is None or res == CONST or (isinstance(res, tuple) and res[0] == "list")):
            # a list/set that is filled by append/add (flow-insensitive element class)
            res = ("list", join(elem(res) if isinstance(res, tuple) else None, cont))
        self._stack.discard(key)
        self._memo[key] = res
        return res

    def _param_reaches(self, stmt, name) -> bool:
        # the parameter binding reaches if some path from entry avoids all defs of name
        defs = {n for n, names in self.rd.defs_at.items() if name in names}
        targets = self.cfg.nodes_of(stmt)
        return bool(self.cfg.find_path([self.cfg.entry], targets, avoid_nodes=defs))

    def def_cls(self, node_id, name):
        s = self.cfg.ast_of(node_id)
        if isinstance(s, ast.Assign):
            for t in s.targets:
                if isinstance(t, ast.Name) and t.id == name:
                    return self.cls(s.value, s)
                if isinstance(t, (ast.Tuple, ast.List)):
                    for i, e in enumerate(t.elts):
                        if isinstance(e, ast.Name) and e.id == name:
                            v = self.cls(s.value, s)
                            if isinstance(s.value, (ast.Tuple, ast.List)) and i < len(s.value.elts):
                                return self.cls(s.value.elts[i], s)
                            if isinstance(v, tuple) and v[0] == "tuple" and i < len(v[1]):
                                return v[1][i]
                            return elem(v)
            return UNKNOWN
        if isinstance(s, ast.AugAssign):
            if isinstance(s.target, ast.Name) and s.target.id == name:
                prev = self.name_cls(name, s)
                return join(prev, self.cls(s.value, s))
            return UNKNOWN
        if isinstance(s, ast.AnnAssign):
            return self.cls(s.value, s) if s.value is not None else UNKNOWN
        if isinstance(s, (ast.For, ast.AsyncFor)):
            it = self.cls(s.iter, s)
            e = elem(it)
            if isinstance(s.target, ast.Name):
                return e
            if isinstance(s.target, (ast.Tuple, ast.List)):
                # element is a tuple: per-position class if known
                if isinstance(e, tuple) and e[0] == "tuple":
                    for i, t in enumerate(s.target.elts):
                        if isinstance(t, ast.Name) and t.id == name and i < len(e[1]):
                            return e[1][i]
                return elem(e) if isinstance(e, tuple) else e
            return UNKNOWN
        if isinstance(s, (ast.With, ast.AsyncWith)):
            return UNKNOWN
        if isinstance(s, ast.ExceptHandler):
            return CONST  # exception object: server-side text
        return UNKNOWN

    # ---- expressions ---------------------------------------------------
    def cls(self, e, stmt):
        if e is None:
            return CONST
        if isinstance(e, ast.Constant):
            return INT if isinstance(e.value, (int, float)) and not isinstance(e.value, bool) else CONST
        if isinstance(e, ast.Name):
            return self.name_cls(e.id, stmt)
        if isinstance(e, ast.JoinedStr):
            return self.joined(e, stmt)
        if isinstance(e, ast.Call) and isinstance(e.func, ast.Attribute) and e.func.attr == "format" and isinstance(e.func.value, ast.Name):
            # t.format(...) where the local t is only ever bound to constant templates (chosen in an if/else)
            from .normalize import format_to_joined

            binds = [s_ for s_ in walk_no_nested(self.fn) if isinstance(s_, ast.Assign) and any(isinstance(t_, ast.Name) and t_.id == e.func.value.id for t_ in s_.targets)]
            others = [x for x in walk_no_nested(self.fn) if isinstance(x, ast.Name) and x.id == e.func.value.id and isinstance(x.ctx, ast.Store)]
            if binds and len(others) == len(binds) and all(isinstance(b.value, ast.Constant) and isinstance(b.value.value, str) for b in binds):
                res = None
                for b in binds:
                    js = format_to_joined(b.value.value, e.args, e.keywords)
                    if js is None:
                        res = None
                        break
                    ast.copy_location(js, e)
                    ast.fix_missing_locations(js)
                    res = join(res, self.joined(js, stmt))
                if res is not None:
                    return res
        if isinstance(e, ast.Attribute):
            if isinstance(e.value, ast.Name):
                base = e.value.id
                if base == "self":
                    return CONST if self.trusted_self else UNKNOWN
                if e.attr in self.fields and self.name_cls(base, stmt) == "MODEL":
                    return self.fields[e.attr]
                if base in ("Config",):
                    return CONST
            return UNKNOWN
        if isinstance(e, ast.BinOp):
            if isinstance(e.op, ast.Mod) and isinstance(e.left, (ast.Constant, ast.JoinedStr)) and isinstance(getattr(e.left, "value", ""), str):
                return self.percent(e, stmt)
            if isinstance(e.op, ast.Mod):
                # TEMPLATES[key] % value  /  TEMPLATES.get(key) % value  with a module-level table of constant templates
                tmpls = self._template_table(e.left)
                if tmpls:
                    res = None
                    for t in tmpls:
                        fake = ast.copy_location(ast.BinOp(left=ast.copy_location(ast.Constant(value=t), e.left), op=ast.Mod(), right=e.right), e)
                        res = join(res, self.percent(fake, stmt))
                    return res
            if isinstance(e.op, ast.Add):
                return self._concat([e.left, e.right], stmt)
            l, r = self.cls(e.left, stmt), self.cls(e.right, stmt)
            if l == INT and r == INT:
                return INT
            return join(l, r)
        if isinstance(e, ast.IfExp):
            return join(self.cls(e.body, stmt), self.cls(e.orelse, stmt))
        if isinstance(e, ast.BoolOp):
            res = None
            for v in e.values:
                res = join(res, self.cls(v, stmt))
            return res
        if isinstance(e, (ast.List, ast.Tuple, ast.Set)):
            if isinstance(e, ast.Tuple):
                return ("tuple", tuple(self.cls(x, stmt) for x in e.elts))
            res = None
            for x in e.elts:
                res = join(res, self.cls(x, stmt))
            return ("list", res if res is not None else CONST)
        if isinstance(e, (ast.ListComp, ast.SetComp, ast.GeneratorExp)):
            return ("list", self.comp_elem(e, stmt))
        if isinstance(e, ast.Subscript):
            b = self.cls(e.value, stmt)
            if isinstance(b, tuple) and b[0] == "tuple" and isinstance(e.slice, ast.Constant) and isinstance(e.slice.value, int) and e.slice.value < len(b[1]):
                return b[1][e.slice.value]
            if isinstance(e.value, ast.Name) and e.value.id in self.globals_cls and isinstance(self.globals_cls[e.value.id], tuple):
                return elem(self.globals_cls[e.value.id])
            return elem(b) if isinstance(b, tuple) else b
        if isinstance(e, ast.Call):
            return self.call(e, stmt)
        if isinstance(e, ast.Await):
            return self.cls(e.value, stmt)
        if isinstance(e, ast.Compare):
            return CONST
        if isinstance(e, ast.UnaryOp):
            return self.cls(e.operand, stmt)
        return UNKNOWN

    def comp_elem(self, e, stmt):
        # bind generator targets, then classify the element expression
        saved = dict(self.params)
        for g in e.generators:
            it = self.cls(g.iter, stmt)
            el = elem(it)
            if isinstance(g.target, ast.Name):
                self.params[g.target.id] = el
            else:
                for t in ast.walk(g.target):
                    if isinstance(t, ast.Name):
                        self.params[t.id] = elem(el) if isinstance(el, tuple) else el
        # comprehension variables shadow: evaluate with a private memo
        memo, self._memo = self._memo, {}
        try:
            res = self._cls_comp(e.elt, stmt, {t.id for g in e.generators for t in ast.walk(g.target) if isinstance(t, ast.Name)})
        finally:
            self._memo = memo
            self.params = saved
        return res

    def _cls_comp(self, e, stmt, bound):
        if isinstance(e, ast.Name) and e.id in bound:
            return self.params[e.id]
        if isinstance(e, ast.Call) and isinstance(e.func, ast.Name) and e.func.id in ("str", "int", "repr") and e.args:
            inner = self._cls_comp(e.args[0], stmt, bound)
            return self._conv(e.func.id, inner)
        if isinstance(e, ast.JoinedStr):
            return self.joined(e, stmt, bound)
        if isinstance(e, ast.IfExp):
            return join(self._cls_comp(e.body, stmt, bound), self._cls_comp(e.orelse, stmt, bound))
        if isinstance(e, ast.Call):
            return self.call(e, stmt, bound)
        return self.cls(e, stmt)

    def _conv(self, fname, inner):
        if fname == "int":
            return INT
        if fname == "repr":
            return REPR
        if fname == "str":
            return INT if inner == INT else (inner if inner in (HEX, SQD, SQDC, CONST, FRAG, REPR, JSON) else RAW if inner == RAW else UNKNOWN)
        return UNKNOWN

    def call(self, c: ast.Call, stmt, bound=()):
        nm = call_name(c)
        arg0 = c.args[0] if c.args else None

        def sub(x):
            return self._cls_comp(x, stmt, bound) if bound else self.cls(x, stmt)

        if nm in ("str", "int", "repr") and arg0 is not None:
            return self._conv(nm, sub(arg0))
        if nm in ("min", "max"):
            res = None
            for a in c.args:
                res = join(res, sub(a))
            return res
        if nm in ("len", "time", "hash", "ord"):
            return INT
        if nm == "map" and len(c.args) == 2 and isinstance(c.args[0], ast.Name) and c.args[0].id in ("str", "int", "repr"):
            v = sub(c.args[1])
            return ("list", self._conv(c.args[0].id, elem(v) if isinstance(v, tuple) else v))
        if nm == "enumerate" and arg0 is not None:
            return ("list", ("tuple", (INT, elem(sub(arg0)))))
        if nm in ("set", "list", "dict", "tuple", "frozenset") and not c.args and not c.keywords:
            return ("list", CONST)
        if nm.endswith(".evaluate_filter") and arg0 is not None:
            return sub(arg0)  # returns the filter object it was given
        if nm in ("tuple", "list", "set", "sorted", "frozenset", "reversed") and arg0 is not None:
            v = sub(arg0)
            return v if isinstance(v, tuple) and v[0] == "list" else ("list", elem(v))
        if nm in ("json_dumps", "json.dumps", "encode_basestring", "json.encoder.encode_basestring", "rapidjson.dumps", "dumps"):
            return JSON
        if nm.endswith(".hex") and not c.args:
            return HEX
        if nm.endswith(".hexdigest"):
            return HEX
        if isinstance(c.func, ast.Attribute):
            recv = c.func.value
            meth = c.func.attr
            if meth == "join" and arg0 is not None:
                sep = sub(recv)
                items = sub(arg0)
                e = elem(items) if isinstance(items, tuple) else items
                if sep in (CONST, FRAG) and e in (CONST, FRAG, INT):
                    return FRAG
                if self.sink == "json" and isinstance(recv, ast.Constant) and recv.value == "," and e in (JSON, INT, FRAG, CONST):
                    return FRAG  # comma-separated JSON values: the body of an array
                if e in (HEX, SQD, SQDC, REPR, JSON) and isinstance(recv, ast.Constant) and recv.value == "":
                    return e
                return RAW if e == RAW else UNKNOWN
            if meth == "replace" and len(c.args) == 2:
                r = sub(recv)
                a, b = c.args
                if isinstance(a, ast.Constant) and isinstance(b, ast.Constant) and a.value == "'" and b.value == "''":
                    if r in (SQDC, "COLON"):
                        return SQDC
                    return SQD if r in (RAW, SQD, HEX, CONST, FRAG) else UNKNOWN
                if isinstance(a, ast.Constant) and isinstance(b, ast.Constant) and a.value == ":" and b.value == "\\:":
                    # the escape sqlalchemy.text() understands; order of the two replaces does not matter (neither introduces the other's character)
                    if r in (SQD, SQDC):
                        return SQDC
                    if r in (HEX, CONST, FRAG, INT):
                        return r
                    return "COLON" if r in (RAW, "COLON") else UNKNOWN
                rb = sub(b)
                if r in (RAW, SQD, HEX):
                    self.alterations.append((c, stmt))
                if r in (CONST, FRAG) and rb in (CONST, FRAG, INT):
                    return FRAG
                return join(r, rb) if r in BAD or rb in BAD else r
            if meth == "format":
                return self.format_call(c, stmt, bound)
            if meth in ("lower", "upper", "strip", "lstrip", "rstrip", "title", "casefold", "translate", "removeprefix", "removesuffix"):
                r = sub(recv)
                if r in (RAW, SQD, HEX):
                    self.alterations.append((c, stmt))
                return r if r in (RAW, UNKNOWN, CONST, INT) else (HEX if r == HEX and meth in ("lower", "strip", "lstrip", "rstrip") else RAW)
            if meth in ("get", "pop") and isinstance(recv, ast.Name) and recv.id in self.globals_cls:
                return elem(self.globals_cls[recv.id])
            if meth == "model_validate":
                return "MODEL"
            if meth == "encode":
                return sub(recv)
        if nm.endswith("NostrQuery") or nm == "NostrQuery":
            return "MODEL"
        # a helper of the same module (or an imported package function the caller attached as `_helpers`): its return class for these argument classes
        if isinstance(c.func, ast.Name) and getattr(self, "_depth", 0) < 3 and not c.keywords and not any(isinstance(a, ast.Starred) for a in c.args):
            mod = getattr(self.fn, "_module", None)
            tree = getattr(mod, "tree", None)
            helper = None
            if tree is not None:
                helper = next((f for f in tree.body if isinstance(f, ast.FunctionDef) and f.name == c.func.id), None)
            if helper is not None and helper is not self.fn and len(helper.args.args) == len(c.args) and not helper.args.vararg and not helper.args.kwarg \
                    and not any(isinstance(y, (ast.Yield, ast.YieldFrom)) for y in ast.walk(helper)):
                key = ("helper", id(helper), tuple(str(sub(a)) for a in c.args))
                if key in self._memo:
                    return self._memo[key]
                it = Interp(helper, self.sink, self.fields, params={p.arg: sub(a) for p, a in zip(helper.args.args, c.args)}, trusted_self=self.trusted_self, globals_cls=self.globals_cls)
                it._depth = getattr(self, "_depth", 0) + 1
                res = None
                for r in walk_no_nested(helper):
                    if isinstance(r, ast.Return) and r.value is not None:
                        res = join(res, it.cls(r.value, r))
                self.holes.extend(it.holes)
                self.alterations.extend(it.alterations)
                res = res if res is not None else UNKNOWN
                self._memo[key] = res
                return res
        return UNKNOWN

    # ---- templates -----------------------------------------------------
    def _adequate(self, cl, position: str, conversion: str) -> tuple:
        if self.sink == "py":
            if conversion == "r" or cl == REPR:
                return True, "repr() literal"
            if cl in (INT, FRAG, CONST):
                return True, f"{cl}"
            return False, f"{cl} interpolated into generated Python source without !r"
        if self.sink == "sql":
            if conversion == "d":
                return True, "%d forces a number"
            if position == "quoted":
                if cl in (HEX, SQDC, INT):
                    return True, f"{cl} inside a quoted literal"
                if cl == SQD:
                    return False, ("SQD inside a quoted literal of a statement handed to sqlalchemy.text(): quotes are doubled but colons are not escaped - text() takes `:word` for a bind "
                                   "parameter even inside quotes (the statement fails, the stream ends empty) and turns `\\:` into `:` (the value `a\\:b` is compared as `a:b`: "
                                   "events with another tag value are returned)")
                return False, f"{cl} inside a single-quoted SQL literal (needs ' doubling or a hex-only value)"
            if cl in (INT, FRAG, CONST):
                return True, f"{cl} bare"
            return False, f"{cl} interpolated as bare SQL"
        if self.sink == "json":
            if position == "quoted":
                if cl in (HEX,):
                    return True, "hex inside a JSON string"
                return False, f"{cl} placed between JSON quotes without a JSON string encoder"
            if cl in (JSON, INT, FRAG, CONST):
                return True, f"{cl} in value position"
            return False, f"{cl} in JSON value position without an encoder"
        return False, "unknown sink"

    def _scan_quotes(self, text: str, state: bool) -> bool:
        q = "'" if self.sink in ("sql",) else '"'
        i = 0
        while i < len(text):
            ch = text[i]
            if self.sink == "json" and state and ch == "\\":
                i += 2
                continue
            if ch == q:
                state = not state
            i += 1
        return state

    def joined(self, e: ast.JoinedStr, stmt, bound=()):
        state = False
        ok = True
        for part in e.values:
            if isinstance(part, ast.Constant):
                state = self._scan_quotes(str(part.value), state)
            elif isinstance(part, ast.FormattedValue):
                conv = {114: "r", 115: "s", 97: "a", -1: ""}.get(part.conversion, "")
                cl = self._cls_comp(part.value, stmt, bound) if bound else self.cls(part.value, stmt)
                spec = part.format_spec
                if spec is not None and len(spec.values) == 1 and isinstance(spec.values[0], ast.Constant) and str(spec.values[0].value)[-1:] in ("d", "x", "X", "o", "b", "f", "e"):
                    cl = INT  # a numeric presentation type raises for anything but a number
                if isinstance(cl, tuple):
                    cl = UNKNOWN if self.sink != "py" else cl
                if self.sink == "py" and conv == "r":
                    good, why = True, "!r"
                else:
                    good, why = self._adequate(cl if not isinstance(cl, tuple) else UNKNOWN, "quoted" if state else "bare", conv)
                self.holes.append(Hole(part.value, cl, "quoted" if state else "bare", conv, stmt, good, why))
                ok = ok and good
        return FRAG if ok else RAW

    def _template_table(self, left):
        """the constant str values of a module-level dict that `left` indexes (D[k] / D.get(k)), else None"""
        base = None
        if isinstance(left, ast.Subscript) and isinstance(left.value, ast.Name):
            base = left.value.id
        elif isinstance(left, ast.Call) and isinstance(left.func, ast.Attribute) and left.func.attr == "get" and isinstance(left.func.value, ast.Name) and len(left.args) == 1:
            base = left.func.value.id
        if base is None:
            return None
        mod = getattr(self.fn, "_module", None)
        tree = getattr(mod, "tree", None)
        if tree is None:
            return None
        # not shadowed by a local binding
        if any(isinstance(n, ast.Name) and n.id == base and isinstance(n.ctx, ast.Store) for n in ast.walk(self.fn)):
            return None
        for st in tree.body:
            if isinstance(st, ast.Assign) and len(st.targets) == 1 and isinstance(st.targets[0], ast.Name) and st.targets[0].id == base and isinstance(st.value, ast.Dict):
                vals = st.value.values
                if vals and all(isinstance(v, ast.Constant) and isinstance(v.value, str) for v in vals):
                    # the table must not be mutated anywhere in the module
                    for n in ast.walk(tree):
                        if isinstance(n, ast.Subscript) and isinstance(n.value, ast.Name) and n.value.id == base and isinstance(n.ctx, (ast.Store, ast.Del)):
                            return None
                        if isinstance(n, ast.Call) and isinstance(n.func, ast.Attribute) and isinstance(n.func.value, ast.Name) and n.func.value.id == base and n.func.attr in ("update", "setdefault", "pop", "clear", "__setitem__"):
                            return None
                    return [v.value for v in vals]
        return None

    def percent(self, e: ast.BinOp, stmt):
        import re

        text = e.left.value if isinstance(e.left, ast.Constant) else None
        if text is None:
            return UNKNOWN
        args = list(e.right.elts) if isinstance(e.right, ast.Tuple) else [e.right]
        specs = list(re.finditer(r"%(?:\([^)]*\))?[#0\- +]*\d*(?:\.\d+)?([a-zA-Z%])", text))
        specs = [m for m in specs if m.group(1) != "%"]
        ok = True
        state = False
        pos = 0
        for m, a in zip(specs, args):
            state = self._scan_quotes(text[pos:m.start()], state)
            pos = m.end()
            conv = m.group(1)
            cl = self.cls(a, stmt)
            if conv == "r" and self.sink == "py":
                good, why = True, "%r"
            elif conv in ("d", "i", "x", "f"):
                good, why = True, f"%{conv} forces a number"
            else:
                good, why = self._adequate(cl if not isinstance(cl, tuple) else UNKNOWN, "quoted" if state else "bare", conv if conv != "s" else "")
            self.holes.append(Hole(a, cl, "quoted" if state else "bare", conv, stmt, good, why))
            ok = ok and good
        if len(specs) != len(args):
            ok = False
        return FRAG if ok else RAW

    def format_call(self, c: ast.Call, stmt, bound=()):
        import re

        tmpl = c.func.value
        if not (isinstance(tmpl, ast.Constant) and isinstance(tmpl.value, str)):
            return UNKNOWN
        text = tmpl.value
        fields = list(re.finditer(r"\{([^{}]*)\}", text))
        ok = True
        state = False
        pos = 0
        for i, m in enumerate(fields):
            state = self._scan_quotes(text[pos:m.start()], state)
            pos = m.end()
            spec = m.group(1)
            conv = "r" if spec.endswith("!r") else ""
            fname = spec.split("!")[0].split(":")[0]
            a = None
            if fname and not fname.isdigit():
                a = next((k.value for k in c.keywords if k.arg == fname), None)
            elif fname.isdigit():
                a = c.args[int(fname)] if int(fname) < len(c.args) else None
            else:
                a = c.args[i] if i < len(c.args) else None
            if a is None:
                ok = False
                continue
            cl = self._cls_comp(a, stmt, bound) if bound else self.cls(a, stmt)
            good, why = self._adequate(cl if not isinstance(cl, tuple) else UNKNOWN, "quoted" if state else "bare", conv)
            self.holes.append(Hole(a, cl, "quoted" if state else "bare", conv, stmt, good, why))
            ok = ok and good
        return FRAG if ok else RAW

    def _concat(self, parts, stmt):
        """`a + b + c` read as a template: constant text moves the quote state, the rest are holes."""
        flat = []

        def fl(e):
            if isinstance(e, ast.BinOp) and isinstance(e.op, ast.Add):
                fl(e.left)
                fl(e.right)
            else:
                flat.append(e)

        for p in parts:
            fl(p)
        if not any(isinstance(p, ast.Constant) and isinstance(p.value, str) for p in flat):
            res = None
            for p in flat:
                res = join(res, self.cls(p, stmt))
            return res
        state = False
        ok = True
        for p in flat:
            if isinstance(p, ast.Constant) and isinstance(p.value, str):
                state = self._scan_quotes(p.value, state)
                continue
            cl = self.cls(p, stmt)
            good, why = self._adequate(cl if not isinstance(cl, tuple) else UNKNOWN, "quoted" if state else "bare", "")
            self.holes.append(Hole(p, cl, "quoted" if state else "bare", "", stmt, good, why))
            ok = ok and good
        return FRAG if ok else RAW
