"""F37 (C10, LMDB backend, known finding): a tag value that is a JSON array is indexed under str(list) when the event arrives and its
entry is looked for under str(tuple) when the event is deleted (get_event_data unpacks with use_list=False), so the tag entry dangles.
Runs the real nostr_relay/storage/kv.py on in-memory stand-ins for lmdb/msgpack (kvfake.py, written by a round-6 author).
exit 1 = the defect shows (expected on the current tree)."""
import os, sys
here = os.path.dirname(os.path.abspath(__file__))
sys.path.insert(0, here)
sys.path.insert(0, os.environ.get("REPO", "/repo"))
import kvfake
kvfake.install()
from aionostr.event import Event
from nostr_relay.storage import kv

ev = Event(pubkey="11" * 32, kind=1, created_at=1700000000, tags=[["t", ["nested", "value"]]], content="", id="22" * 32, sig="33" * 64)
tags_index = kv.TagIndex()
written = list(tags_index.convert(ev))
from msgpack import unpackb
stored = kv.decode_event(unpackb(kv.encode_event(ev), use_list=False))
cleared = list(tags_index.convert(stored))
print("key written on add   :", written)
print("key derived on delete:", cleared)
sys.exit(1 if written != cleared else 0)
