"""
Helpers for the demonstrations.

`lmdb`, `msgpack` (and `whoosh`) are not installed here, so nostr_relay/storage/kv.py
cannot be imported as is.  install() puts small in-memory stand-ins for the parts of
the lmdb and msgpack APIs that kv.py uses into sys.modules:

* lmdb: an Environment holding an immutable snapshot dict; write transactions work on a
  private copy that replaces the snapshot on commit and is thrown away on abort (leaving
  the `with` block through an exception aborts, like py-lmdb); one writer at a time;
  cursors see the live data of their transaction, in key order.
* msgpack: packb/unpackb with the two behaviours kv.py relies on - unpackb(None)
  raises TypeError and, with use_list=False, every array comes back as a tuple.

check_coherence() is the observer of the property: a full walk of the keyspace,
comparing the index entries that exist with the ones every stored record should have.
The expected keys are derived here, independently of the Index classes, from the
record as the relay itself reads it back (kv.get_event_data).
"""

import bisect
import pickle
import sys
import threading
import types

MAX_KEY_SIZE = 511


class Error(Exception):
    pass


class BadValsizeError(Error):
    pass


class MapFullError(Error):
    pass


class Environment:
    def __init__(self, path=None, **options):
        self.path = path
        self.options = options
        self.data = {}
        self.write_lock = threading.Lock()
        self.closed = False

    def begin(self, write=False, buffers=False, parent=None, db=None):
        if self.closed:
            raise Error("environment is closed")
        return Transaction(self, write=write, buffers=buffers)

    def max_key_size(self):
        return MAX_KEY_SIZE

    def stat(self):
        return {"entries": len(self.data)}

    def info(self):
        return {"map_size": self.options.get("map_size", 10485760)}

    def sync(self, force=False):
        pass

    def close(self):
        self.closed = True

    def __enter__(self):
        return self

    def __exit__(self, *exc):
        self.close()


class Transaction:
    def __init__(self, env, write=False, buffers=False):
        self.env = env
        self.write = write
        self.buffers = buffers
        self.mutations = 0
        self.done = False
        if write:
            env.write_lock.acquire()
            self.data = dict(env.data)
        else:
            self.data = env.data  # snapshots are never modified in place

    def _out(self, value):
        return memoryview(value) if self.buffers else value

    def get(self, key, default=None):
        value = self.data.get(bytes(key))
        if value is None:
            return default
        return self._out(value)

    def put(self, key, value, dupdata=True, overwrite=True, append=False):
        assert self.write, "read-only transaction"
        key = bytes(key)
        if not key or len(key) > MAX_KEY_SIZE:
            raise BadValsizeError("mdb_put: MDB_BAD_VALSIZE")
        if not overwrite and key in self.data:
            return False
        self.data[key] = bytes(value)
        self.mutations += 1
        return True

    def delete(self, key, value=b"", db=None):
        assert self.write, "read-only transaction"
        existed = self.data.pop(bytes(key), None) is not None
        self.mutations += 1
        return existed

    def cursor(self, db=None):
        return Cursor(self)

    def stat(self, db=None):
        return {"entries": len(self.data)}

    def commit(self):
        if self.done:
            return
        self.done = True
        if self.write:
            self.env.data = self.data
            self.env.write_lock.release()

    def abort(self):
        if self.done:
            return
        self.done = True
        if self.write:
            self.env.write_lock.release()

    def __enter__(self):
        return self

    def __exit__(self, exc_type, exc, tb):
        if exc_type is None:
            self.commit()
        else:
            self.abort()
        return False


class Cursor:
    """
    Ordered cursor. The position is remembered as a key; if that key is deleted
    through the transaction, prev()/next() move relative to where it was, which is
    what LMDB does (the cursor then sits on the following key).
    """

    def __init__(self, txn):
        self.txn = txn
        self.pos = None
        self._keys = None
        self._seen = -1

    def _sorted(self):
        if self._keys is None or self._seen != self.txn.mutations:
            self._keys = sorted(self.txn.data)
            self._seen = self.txn.mutations
        return self._keys

    def key(self):
        if self.pos is None:
            return self.txn._out(b"")
        return self.txn._out(self.pos)

    def value(self):
        if self.pos is None:
            return self.txn._out(b"")
        return self.txn._out(self.txn.data.get(self.pos, b""))

    def item(self):
        return self.key(), self.value()

    def first(self):
        keys = self._sorted()
        self.pos = keys[0] if keys else None
        return self.pos is not None

    def last(self):
        keys = self._sorted()
        self.pos = keys[-1] if keys else None
        return self.pos is not None

    def set_range(self, key):
        keys = self._sorted()
        i = bisect.bisect_left(keys, bytes(key))
        self.pos = keys[i] if i < len(keys) else None
        return self.pos is not None

    def set_key(self, key):
        key = bytes(key)
        if key in self.txn.data:
            self.pos = key
            return True
        self.pos = None
        return False

    def prev(self):
        if self.pos is None:
            return self.last()
        keys = self._sorted()
        i = bisect.bisect_left(keys, self.pos)
        if i == 0:
            self.pos = None
            return False
        self.pos = keys[i - 1]
        return True

    def next(self):
        if self.pos is None:
            return self.first()
        keys = self._sorted()
        i = bisect.bisect_right(keys, self.pos)
        if i >= len(keys):
            self.pos = None
            return False
        self.pos = keys[i]
        return True

    def _iter(self, step, keys, values):
        if self.pos is None:
            if not (self.first() if step == self.next else self.last()):
                return
        while True:
            if keys and values:
                yield self.item()
            elif keys:
                yield self.key()
            else:
                yield self.value()
            if not step():
                return

    def iternext(self, keys=True, values=True):
        return self._iter(self.next, keys, values)

    def iterprev(self, keys=True, values=True):
        return self._iter(self.prev, keys, values)

    def close(self):
        pass

    def __enter__(self):
        return self

    def __exit__(self, *exc):
        self.close()


ENVIRONMENTS = {}


def lmdb_open(path=None, **options):
    env = ENVIRONMENTS.get(path)
    if env is None or env.closed:
        data = env.data if env is not None else {}
        env = ENVIRONMENTS[path] = Environment(path, **options)
        env.data = data
    return env


def _tuples(obj):
    if isinstance(obj, (list, tuple)):
        return tuple(_tuples(i) for i in obj)
    if isinstance(obj, dict):
        return {k: _tuples(v) for k, v in obj.items()}
    return obj


def packb(obj, use_bin_type=True, **kwargs):
    return pickle.dumps(obj)


def unpackb(data, use_list=True, **kwargs):
    if data is None:
        raise TypeError("a bytes-like object is required, not 'NoneType'")
    obj = pickle.loads(bytes(data))
    return obj if use_list else _tuples(obj)


def install():
    if "lmdb" not in sys.modules:
        fake = types.ModuleType("lmdb")
        fake.open = lmdb_open
        fake.Environment = Environment
        fake.Transaction = Transaction
        fake.Cursor = Cursor
        fake.Error = Error
        fake.BadValsizeError = BadValsizeError
        fake.MapFullError = MapFullError
        sys.modules["lmdb"] = fake
    if "msgpack" not in sys.modules:
        fake = types.ModuleType("msgpack")
        fake.packb = packb
        fake.unpackb = unpackb
        sys.modules["msgpack"] = fake


# ---------------------------------------------------------------------------
# the observer


def u32(value):
    return value.to_bytes(4, "big")


def expected_keys(record):
    """
    The secondary keys a stored record must have, derived from the record
    (version, id, created_at, kind, pubkey, content, tags, sig)
    """
    _, event_id, created_at, kind, pubkey, _, tags, _ = record
    suffix = b"\x00" + u32(created_at) + b"\x00" + event_id
    keys = {
        b"\x01" + u32(created_at) + suffix,
        b"\x02" + u32(kind) + suffix,
        b"\x03" + pubkey + suffix,
        b"\x04" + pubkey + b"\x00" + u32(kind) + suffix,
    }
    for tag in tags:
        if len(tag) >= 2 and (len(tag[0]) == 1 or tag[0] in ("expiration", "delegation")):
            keys.add(b"\x09" + tag[0].encode() + b"\x00" + str(tag[1]).encode() + suffix)
    return keys


NAMES = {1: "created_at", 2: "kind", 3: "author", 4: "author+kind", 9: "tag"}


def describe(key):
    return f"{NAMES.get(key[0], hex(key[0]))} {key[1:-38]!r} -> event {key[-32:].hex()[:12]}"


def check_coherence(env, kv, verbose=True):
    """
    Walk the whole keyspace. Returns a list of problems (empty = coherent)
    """
    problems = []
    expected = set()
    actual = set()
    with env.begin() as txn:
        with txn.cursor() as cursor:
            for key in cursor.iternext(values=False):
                key = bytes(key)
                if key == b"\xee":
                    continue
                if key[0:1] == b"\x00":
                    record = kv.get_event_data(txn, key[1:])
                    expected |= expected_keys(record)
                else:
                    actual.add(key)
    for key in sorted(actual - expected):
        problems.append("index entry without a matching record/value: " + describe(key))
    for key in sorted(expected - actual):
        problems.append("record lacks its index entry:                 " + describe(key))
    if verbose:
        for problem in problems:
            print("  INCOHERENT", problem)
    return problems
