"""Claim table: which properties are claimed, with which deciding technique."""

TXT = ("Structural necessary conditions of the property, decided from the source of the current tree on every "
       "path / call site / table row the rule quantifies over; a violated rule names the construct. ")

CLAIMS = {
    "C03": {
        "technique": "CFG must-pass-through (validator gate before every admission effect), chain-integrity lint, "
                     "guard-participation of verify() and of the id-vs-hash comparison, who-may-call ownership",
        "text": TXT + "Decides: validator gate dominates every store/enqueue/broadcast/ack in both backends; the chain "
                "cannot skip or swallow a validator; defaults contain is_signed; is_signed is fail-closed; the "
                "client-supplied id is compared with the recomputed hash; closed world of admission.",
        "not_decided": "cryptographic correctness of aionostr/coincurve; NIP-26 condition strings.",
    },
}

PENDING = "checker for this property is not implemented yet in this revision; nothing is claimed"
NOT_APPLICABLE = {
    "C11": "metamorphic relations over the LMDB scanner's byte-order arithmetic on runtime keys: no rule over the shape "
           "of the code bounds them, and pinning the scanner's current text would fire on behaviour-preserving edits; "
           "its structural preconditions are checked under C01 (residual re-match), C02/C10 (key layout, tombstone).",
}
for _i in range(1, 21):
    _p = f"C{_i:02d}"
    if _p not in CLAIMS and _p not in NOT_APPLICABLE:
        NOT_APPLICABLE[_p] = PENDING

SOURCE_COMMITS = []
