"""Claim table: which properties are claimed, with which deciding technique."""

TXT = ("Structural necessary conditions of the property, decided from the source of the current tree on every "
       "path / call site / table row the rule quantifies over; a violated rule names the construct. The complete, current rule "
       "list (including rules shared with other properties and those added after seeded changes were missed - DESIGN.md sections 15, 18) "
       "with instance counts and floors is written to the evidence file (coverage.rules) on every run. ")

CLAIMS = {
    "C03": {
        "technique": "CFG must-pass-through (validator gate before every admission effect), chain-integrity lint, "
                     "guard-participation of verify() and of the id-vs-hash comparison, who-may-call ownership",
        "text": TXT + "Decides: validator gate dominates every store/enqueue/broadcast/ack in both backends; the chain "
                "cannot skip or swallow a validator; defaults contain is_signed; is_signed is fail-closed; the "
                "client-supplied id is compared with the recomputed hash; what is stored is the verified object's own fields (reversible codecs "
                "only); closed world of admission.",
        "not_decided": "cryptographic correctness of aionostr/coincurve; NIP-26 condition strings.",
    },
    "C14": {
        "technique": "CFG must-pass-through on guard edges (can_do truthy before every admission effect / subscription start; "
                     "check_output truthy-or-unset before every delivery site), who-may-call, fail-closed lint of can_do",
        "text": TXT + "Decides: save gate in both backends, query gate in subscribe, output validator on every stored, live and HTTP "
                "delivery site, can_do decision structure and seeded actions, replace-on-conflict idiom of the role store.",
        "not_decided": "role read-back equals last write; the configuration matrix as behaviour; operator plug-in classes.",
    },
    "C16": {
        "technique": "CFG must-pass-through (validator gate), chain-integrity lint, guard-participation with comparison direction per "
                     "validator (frozen slot table), handler table, thread-shared-set mutation discipline",
        "text": TXT + "Decides: pipeline before any effect and cannot skip validators; each shipped validator rejects by raise on a guard "
                "relating its event field to its configuration source in the documented direction; rejection is answered OK,false; "
                "allow/deny sets are never emptied while validators may read them.",
        "not_decided": "each validator's numeric bound at the limit; list contents as a function of the queries; refresh/validation interleavings beyond the no-empty-window rule.",
    },
    "C13": {
        "technique": "CFG post-dominance of the EOSE sentinel (exceptional edges, cancellation excluded), must-pass-through on guard edges "
                     "(limit, replacement), handler/raise tables, sender dequeue-to-send path rule, typestate liveness rule",
        "text": TXT + "Decides: sentinel on every non-cancellation exit of each run_query and at most once; subscribe answers every REQ "
                "(start or sentinel) and raises only NOTICE-mapped types; limit test before insertion on the same dict; same-id replacement "
                "before any answer; cancel-before-delete; finally drops registry and sender; sender never drops a sentinel and maps None->EOSE.",
        "not_decided": "interleavings of a running query task with REQ/CLOSE beyond the liveness rule; bounded-exhaustive command sequences.",
    },
    "C06": {
        "technique": "path counting over the acyclic CFG slice of the EVENT branch (exactly one OK frame), definite-assignment, value "
                     "provenance of the acknowledgement status, control-dependence of the broadcast, derived writer-side obligations",
        "text": TXT + "Decides: exactly one OK per EVENT on every path incl. the rate-limited branch; OK operands definitely assigned; OK=true "
                "only from the INSERT's rowcount inside the transaction and returned after commit; broadcast after commit iff new; OK=false "
                "leaves no trace because all writes share one transaction; the LMDB duplicate test is read from the store; LMDB fixed-width "
                "conversions guarded before the acknowledged enqueue.",
        "not_decided": "'retrievable thereafter' end-to-end; absence of value-dependent faults in pre_save/process_tags for all well-formed events.",
    },
    "C15": {
        "technique": "CFG must-pass-through on guard edges (guard participation with comparison direction and bound), string-as-container "
                     "lint, value provenance of the challenge and of the connection token",
        "text": TXT + "Decides: token only after check_auth_event on the payload event and the challenge parameter; each NIP-42 check "
                "(signature, kind, two-sided freshness <= 600 s, relay membership, challenge equality, both tags required) gates the normal "
                "exit; valid_urls is never a str; challenge = secrets.token_*(>=16) bound once per connection; auth_token bound only by a "
                "successful authenticate().",
        "not_decided": "off-by-one at exactly +-600 s; replay within the window on the same connection; cryptography.",
    },
    "C19": {
        "technique": "structural containment lint over the handler's try ladder, contradiction rule for None-default parameters on the CFG, "
                     "constant-index vs derived minimum length, acquire/release idiom check, ownership of the registry key",
        "text": TXT + "Decides: every statement of the message loop is inside a try with a closing catch-all; outer catch-all + finally; no "
                "unguarded use of a None-default parameter (finally included); message[k] below the validated length; cleanup pairing; "
                "slots only via async with / try-finally; unbounded per-connection queue; filter errors mapped.",
        "not_decided": "liveness and cross-connection isolation as runtime facts; resource exhaustion.",
    },
    "C01": {
        "technique": "taint-to-sink abstract interpretation (reaching definitions on the CFG, sanitiser marks derived from the filter "
                     "model, hole position in the SQL / Python skeleton), CFG must-pass-through for the validation and residual gates, "
                     "dispatch exhaustiveness, comparator table over sibling matchers",
        "text": TXT + "Decides: every client-derived piece reaching SQL text or exec()'d source carries a mark adequate for its syntactic "
                "position (HEX derived from ids_are_hex, INT from annotations, quote-doubling plus colon-escaping for statements that go through sqlalchemy.text(), !r); every tag member of a filter adds a clause or voids the filter; only validated filters reach a "
                "subscription and a client 'tags' key cannot survive; every LMDB result passed the residual compiled from the complete "
                "condition list; since/until bound created_at in the right direction in all three matchers.",
        "not_decided": "semantic NIP-01 equivalence of the assembled WHERE clause / index scans; that the store holds only accepted events.",
    },
    "C04": {
        "technique": "taint-to-sink abstract interpretation with sink = JSON frame (hole position: between quotes / value position), "
                     "admission-derived field marks (guard participation in is_signed), codec table extraction and comparison "
                     "(SELECT list, table definitions, row indices, INSERT values, msgpack row, FIELDS_TO_COLUMNS)",
        "text": TXT + "Decides: every ws_send value is a json_dumps of a list with a known head, the hand serializer, or a template with "
                "JSON-adequate holes; each hole of the hand serializer is encoded or admission-proven (canonical hex / int); the SQL and "
                "LMDB writer/reader tables describe one mapping and store each field through a reversible codec; /e/<id> publishes through the encoder.",
        "not_decided": "round-trip equality through the engines' JSON/TEXT/msgpack codecs for all values; byte-level escaping equality.",
    },
    "C05": {
        "technique": "who-may-call ownership of the registry, CFG path rule (registry read -> await -> task creation), structural fan-out "
                     "shape, control-dependence of the broadcast, sibling field-coverage / falsy-zero lint of the live matcher, typestate liveness",
        "text": TXT + "Decides: only subscribe/unsubscribe mutate the registry (insertion after start, identity-keyed); the fan-out reads the "
                "registry after its last suspension point and never awaits inside the loops; exactly one unconditional notify task per "
                "subscription; broadcast after commit iff new; the live matcher covers every filter field and honours 0 bounds; "
                "notify queues exactly (sub_id, event) iff matched.",
        "not_decided": "exactly-once delivery under all interleavings; semantic equivalence of check_event with the stored predicates.",
    },
    "C07": {
        "technique": "transaction-region analysis (lexical region + class-hierarchy-resolved closure): handle provenance of every write, no nested "
                     "begin/commit, no swallowing handler around a write, nothing deferred to another task; who-may-call on txn.put/delete; "
                     "schema table comparison",
        "text": TXT + "Decides: one SQL region spans pre_save/INSERT/post_save/process_tags and all writes use its handle; the LMDB writer applies a "
                "task in one write transaction with the logging handler outside it and inside the loop; slots via async with; cascade + "
                "foreign_keys pragma; no index commits to a foreign store.",
        "not_decided": "engine-level atomic commit and crash recovery; faults between commit and broadcast.",
    },
    "C08": {
        "technique": "conjunct extraction from SQLAlchemy delete/select expressions with value provenance of deleted ids, structural nesting "
                     "check of the LMDB kind-5 branch, who-may-call on unauthenticated delete paths",
        "text": TXT + "Decides: every events-table DELETE in the add_event closure is and-constrained to the incoming event's pubkey (or deletes ids "
                "read from such a SELECT), the kind-5 delete is pinned to the event's own e-tags; the LMDB branch deletes only author-index "
                "hits that are in the referenced set, one bad reference does not cancel the rest; delete_event has a fixed caller set.",
        "not_decided": "scanner arithmetic of the author index; completeness of removal.",
    },
    "C12": {
        "technique": "value provenance of the cut-off (min with the configured maximum), falsy-zero lint, must-pass-through of ORDER BY "
                     "before LIMIT and of the count test before the append, model-bound extraction, monotone-accumulation rule",
        "text": TXT + "Decides: limit declared ge=0; the SQL LIMIT variable and the LMDB plan limit are capped by the configured maximum; "
                "0 is honoured; ORDER BY created_at DESC precedes LIMIT on every path; the LMDB append is dominated by count < limit; "
                "order-destroying containers before the cut-off and last-wins composition are reported.",
        "not_decided": "descending order of one reverse cursor walk; merge of per-value runs (part of the recorded finding).",
    },
    "C02": {
        "technique": "decision-list ownership analysis of the residual compiler against the planner's emitted keys, falsy-zero lint, sibling "
                     "comparison of the authors clause, key-layout table derived from the writer and compared with every reader slice, "
                     "shared-singleton statelessness lint",
        "text": TXT + "Decides (necessary conditions only): every planner key is owned by a residual branch for all values; since/until presence "
                "tests keep 0; authors/delegation agreement across matchers; writer widths == reader slices == filter bounds; plan bound >= 5; "
                "index singletons keep no per-scan state.",
        "not_decided": "completeness of the LMDB scanner over arbitrary key neighbourhoods; exactly-once on SQL; bound-parameter collisions.",
    },
    "C09": {
        "technique": "conjunct extraction from the candidate SELECT / DELETE expressions, structural check of the LMDB scan arguments, "
                     "CFG must-pass-through of the d-value equality before each deletion, string-as-container lint, all-victims rule",
        "text": TXT + "Decides (necessary conditions only): all four replaceable classes handled in both backends; candidates constrained to same "
                "author, same kind, older - and to nothing more; own record skipped; no first()/break picks one victim; a candidate of a "
                "parameterized-replaceable kind is deleted only after equality of normalised d values.",
        "not_decided": "arrival-order outcomes, equal timestamps; whether an older incoming event is itself kept.",
    },
    "C10": {
        "technique": "sibling/registry analysis of the index classes (write vs clear key expressions, purity of convert/to_key), same-list rule for "
                     "add and delete paths, who-may-call on txn mutations and index-only writes, prefix/tombstone ordering table",
        "text": TXT + "Decides: clear deletes what write puts for every registry class; key derivation is a pure function of the event; add and "
                "delete iterate the same list incl. the primary record; keyspace mutations only inside the index classes and one transaction; "
                "distinct one-byte prefixes below the tombstone, written before the writer starts.",
        "not_decided": "coherence after arbitrary histories as a runtime invariant; msgpack stability of exotic tag values.",
    },
    "C17": {
        "technique": "constant-table comparison of the ephemeral range at its three sites, SQL text structure analysis of the GC statement (disjunct "
                     "count, ordering domain of the expiration comparison), structural rule on the LMDB range walks incl. helper generators",
        "text": TXT + "Decides (necessary conditions only): same half-open kind range everywhere; exactly two deletion sources; bounded range walks "
                "with unpadded end keys; lexicographic / bare-CAST expiration comparisons are reported; ephemeral events bypass LMDB storage "
                "but are broadcast; single collector that survives failing passes.",
        "not_decided": "frame condition as behaviour (JOIN semantics, real key ranges); clock handling.",
    },
    "C18": {
        "technique": "CFG must-pass-through on the limiter's verdict edge, record-iff-admitted path rule, growth-without-eviction lint, "
                     "orientation agreement between insertion / idleness tests / eviction, control-dependence of the precedence return",
        "text": TXT + "Decides (structural part): the limiter verdict dominates every command branch and the accept; timestamps recorded only on the "
                "admitted edge into the evaluated deque; per-element eviction bounded by the longest interval; newest/oldest ends used "
                "consistently; specific-address precedence only when that section rules the command; cleanup on disconnect.",
        "not_decided": "the sliding-window arithmetic itself; rule parsing; IPv6 keys.",
    },
    "C20": {
        "technique": "API-contract lint on stream reads (readexactly with the written record width), CFG path rule on the peer table "
                     "(snapshot after the read, copy when the body awaits, no-echo guard), call-site placement of the announcement",
        "text": TXT + "Decides: ids are read as whole 32-byte records on both sides; the relay writes to every peer but the origin, from a table read "
                "after the id arrived; the client re-reads the event and uses the local fan-out; both backends announce after the local "
                "fan-out and, on SQL, after commit; announcing is conditional on the notifier created iff should_run_notifier.",
        "not_decided": "exactly-once under peer reconnects; LMDB writer not yet committed when a peer looks the id up.",
    },
}

PENDING = "checker for this property is not implemented yet in this revision; nothing is claimed"
NOT_APPLICABLE = {
    "C11": "metamorphic relations over the LMDB scanner's byte-order arithmetic on runtime keys: no rule over the shape "
           "of the code bounds them, and pinning the scanner's current text would fire on behaviour-preserving edits; "
           "its structural preconditions are checked under C01 (residual re-match), C02/C10 (key layout, tombstone).",
}
for _i in range(1, 21):
    _p = f"C{_i:02d}"
    if _p not in CLAIMS and _p not in NOT_APPLICABLE:
        NOT_APPLICABLE[_p] = PENDING

SOURCE_COMMITS = []
