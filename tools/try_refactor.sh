#!/bin/bash
# try_refactor.sh <dir with patch.diff>  - all checks must stay silent (exit 0) on a behaviour-preserving refactoring
D=$(readlink -f "$1"); shift; PROPS="$@"
W=$(mktemp -d /tmp/tryref.XXXXXX); trap 'rm -rf "$W"' EXIT
cp -r /repo/nostr_relay "$W/nostr_relay"; git init -q "$W" 2>/dev/null
git -C "$W" apply "$D/patch.diff" 2>/dev/null || { echo "PATCH-FAILED $D"; exit 3; }
BAD=""
[ -z "$PROPS" ] && PROPS=$(python3 -c "import json;print(' '.join(c['property_id'] for c in json.load(open('/verif/MANIFEST.json'))['checks']))")
for p in $PROPS; do
  out=$(cd /verif && SA_REPO="$W" python3-vt -m sa.check $p --no-evidence 2>&1); rc=$?
  if [ $rc -ne 0 ]; then BAD="$BAD $p(rc=$rc)"; echo "$out" | grep -v "^KNOWN\|^VIOLATION" | sed -n 2,7p | cut -c1-260; fi
done
echo "REFACTOR $(basename $(dirname $D))/$(basename $D): ${BAD:- silent}"
