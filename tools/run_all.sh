#!/bin/bash
# run every registered quick (or $1=thorough) check; print failures
TIER=${1:-quick}
cd /verif
rc=0
for p in $(python3 -c "import json;print(' '.join(c['property_id'] for c in json.load(open('MANIFEST.json'))['checks']))"); do
  out=$(python3-vt -m sa.check $p --tier $TIER 2>&1); r=$?
  line=$(echo "$out" | grep "^\[$p\]" | head -1)
  echo "$r $line"
  if [ $r -ne 0 ]; then rc=1; echo "$out" | grep -v "^\[$p\]" | head -8; fi
done
exit $rc
