#!/usr/bin/env python3
"""Run every registered check against every seeded change (scratch copy of /repo + patch, SA_REPO) and print
which checks report it.  Usage: seed_matrix.py [seed-root]   (default /verif/seeded)"""
import json
import os
import shutil
import subprocess
import sys
import tempfile
from concurrent.futures import ThreadPoolExecutor

VERIF = os.path.dirname(os.path.dirname(os.path.abspath(__file__)))
ROOT = sys.argv[1] if len(sys.argv) > 1 else os.path.join(VERIF, "seeded")
PROPS = [c["property_id"] for c in json.load(open(os.path.join(VERIF, "MANIFEST.json")))["checks"]]


def one(seed):
    sdir = os.path.join(ROOT, seed)
    patch = os.path.join(sdir, "patch.rebased.diff")
    if not os.path.exists(patch):
        patch = os.path.join(sdir, "patch.diff")
    w = tempfile.mkdtemp(prefix="seedmx.")
    try:
        shutil.copytree("/repo/nostr_relay", os.path.join(w, "nostr_relay"))
        subprocess.run(["git", "init", "-q", w], capture_output=True)
        r = subprocess.run(["git", "-C", w, "apply", patch], capture_output=True, text=True)
        if r.returncode != 0:
            return seed, None, "patch does not apply"
        hits = {}
        for p in PROPS:
            env = dict(os.environ, SA_REPO=w)
            r = subprocess.run(["python3-vt", "-m", "sa.check", p, "--no-evidence"], cwd=VERIF, env=env, capture_output=True, text=True)
            if r.returncode != 0:
                rules = sorted({ln.split("[")[1].split("]")[0] for ln in r.stdout.splitlines() if ln.startswith("  ") and "[" in ln and "]" in ln and ": [" in ln})
                hits[p] = {"rc": r.returncode, "rules": rules or [ln for ln in r.stdout.splitlines() if ln.startswith("ANALYSIS-ERROR")][:1]}
        return seed, hits, ""
    finally:
        shutil.rmtree(w, ignore_errors=True)


def main():
    seeds = sorted(d for d in os.listdir(ROOT) if os.path.isdir(os.path.join(ROOT, d)) and os.path.exists(os.path.join(ROOT, d, "patch.diff")))
    out = {}
    with ThreadPoolExecutor(max_workers=8) as ex:
        for seed, hits, err in ex.map(one, seeds):
            out[seed] = hits if hits is not None else err
            if hits is None:
                print(f"{seed:8s} -- {err}")
            else:
                own = seed.split("-")[0]
                desc = "; ".join(f"{p}:{'/'.join(h['rules'])}(rc={h['rc']})" for p, h in hits.items()) or "MISSED"
                print(f"{seed:8s} own={'yes' if own in hits else 'no '} {desc}")
    json.dump(out, open(os.path.join(VERIF, "seeded", "MATRIX.json") if os.path.isdir(os.path.join(VERIF, "seeded")) else "/dev/null", "w"), indent=1)


if __name__ == "__main__":
    main()
