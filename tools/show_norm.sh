#!/bin/bash
# show_norm.sh <dir with patch.diff> <qual> [qual…] - print the normalised source of functions of a patched scratch copy
D=$(readlink -f "$1"); shift
W=$(mktemp -d /tmp/shownorm.XXXXXX); trap 'rm -rf "$W"' EXIT
cp -r /repo/nostr_relay "$W/nostr_relay"; git init -q "$W" 2>/dev/null
git -C "$W" apply "$D/patch.diff" || exit 3
cd /verif; SA_REPO="$W" SA_DEBUG_NORMALIZE=1 python3-vt - "$@" <<'PY'
import ast,sys
from sa.core import Program
P=Program()
for q in sys.argv[1:]:
    fn=P.func_opt(q)
    print("=====",q, "MISSING" if fn is None else "")
    if fn is not None: print(ast.unparse(fn))
for n,m in P.modules.items():
    if m.normalized and (m.normalized.get('helper_calls_inlined') or m.normalized.get('error')): print(n,m.normalized)
PY
