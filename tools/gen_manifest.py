#!/usr/bin/env python3
"""Regenerate /verif/MANIFEST.json from the claim table below (kept next to the code so the
manifest, the property modules and DESIGN.md cannot drift silently)."""
import json
import os
import subprocess

HERE = os.path.dirname(os.path.abspath(__file__))
VERIF = os.path.dirname(HERE)

NOTE_COMMON = (
    "Trusted base: CPython's ast module, the hand-built CFG/call-graph model (sa/cfg.py, sa/lib.py), "
    "documented behaviour of SQLite/PostgreSQL/LMDB, pydantic, coincurve, rapidjson, asyncio. "
    "Only structural necessary conditions are decided; the behaviour as a whole is not. Not decided: "
)

# property -> (technique, claim text, not-decided text, design section)
CLAIMS = {}

NOT_APPLICABLE = {}


def load_claims():
    import importlib.util

    spec = importlib.util.spec_from_file_location("claims", os.path.join(HERE, "claims.py"))
    mod = importlib.util.module_from_spec(spec)
    spec.loader.exec_module(mod)
    return mod.CLAIMS, mod.NOT_APPLICABLE, getattr(mod, "SOURCE_COMMITS", [])


def main():
    claims, na, commits = load_claims()
    checks = []
    for pid in sorted(claims):
        c = claims[pid]
        checks.append(
            {
                "property_id": pid,
                "quick_cmd": f"python3-vt -m sa.check {pid} --tier quick",
                "thorough_cmd": f"python3-vt -m sa.check {pid} --tier thorough",
                "evidence_file": f"evidence/{pid}.json",
                "replay_cmd_template": f"python3-vt -m sa.check {pid} --explain {{path}}",
                "engine": "sa",
                "level_claimed": {
                    "category": "other",
                    "text": c["text"],
                    "design_ref": c.get("design_ref", f"DESIGN.md §5 {pid}"),
                },
                "level_note": NOTE_COMMON + c["not_decided"],
                "technique": c["technique"],
            }
        )
    manifest = {
        "version": 1,
        "setup_cmd": "python3-vt -c \"import ast, networkx; print('sa: nothing to build')\"",
        "hooks": {
            "guard": "NOSTR_RELAY_VERIF",
            "enable": "none needed: the checks are static and read the working tree; no source hooks exist",
            "baseline_off_cmd": "cd /repo && /venv/bin/python -m pytest -ra -q -p no:cacheprovider --timeout=900 --continue-on-collection-errors",
            "source_commits": commits,
            "add_only": True,
        },
        "engines": [
            {
                "name": "sa",
                "path": "sa/",
                "serves_properties": sorted(claims),
                "kind_free_text": "repository-specific static analysis: stdlib ast, hand-built statement CFG with exceptional/cancellation edges (networkx), class-hierarchy call resolution, template/hole analysis of assembled SQL, generated Python and JSON frames, table extraction and sibling comparison; in-memory mutation self-test",
            }
        ],
        "checks": checks,
        "not_applicable": [
            {"property_id": k, "reason": v} for k, v in sorted(na.items())
        ],
        "notes": "All checks are static (family: static analysis). exit 0 = held, 1 = VIOLATION line, 2 = ANALYSIS-ERROR (checker could not build its model; never a pass). Genuine defects that were not repaired are listed in known_findings.json and printed as KNOWN-FINDING lines.",
    }
    with open(os.path.join(VERIF, "MANIFEST.json"), "w") as fp:
        json.dump(manifest, fp, indent=1)
    print(f"MANIFEST.json: {len(checks)} checks, {len(na)} not_applicable")


if __name__ == "__main__":
    main()
