#!/bin/bash
# run the pinned suite on /repo (or $1) and report the stable-pass set
ROOT=${1:-/repo}
OUT=$(mktemp /tmp/junit.XXXXXX.xml)
cd "$ROOT" && /venv/bin/python -m pytest -ra -q -p no:cacheprovider --timeout=900 --continue-on-collection-errors --junitxml=$OUT >/dev/null 2>&1
python3 - "$OUT" <<'PY'
import sys, json, xml.etree.ElementTree as ET
base=json.load(open('/root/.vp/BASELINE.json'))
t=ET.parse(sys.argv[1])
res={}
for tc in t.iter('testcase'):
    name=f"{tc.get('classname')}::{tc.get('name')}"
    bad=any(c.tag in('failure','error') for c in tc)
    skip=any(c.tag=='skipped' for c in tc)
    res[name]='fail' if bad else ('skip' if skip else 'pass')
missing=[n for n in base['stable_pass'] if res.get(n)!='pass']
print(f"stable_pass: {len(base['stable_pass'])-len(missing)}/{len(base['stable_pass'])}; failing stable: {missing}")
sys.exit(1 if missing else 0)
PY
rc=$?
rm -f $OUT
exit $rc
