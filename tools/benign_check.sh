#!/bin/bash
# every behaviour-preserving refactoring under /verif/benign must leave every check silent (exit 0)
cd /verif; bad=0
for d in benign/*/; do
  out=$(tools/try_refactor.sh $d 2>&1 | grep "^REFACTOR\|PATCH")
  echo "$out"
  echo "$out" | grep -q "silent" || bad=1
done
exit $bad
