#!/usr/bin/env python3
"""Freeze the table of audited functions: sa/known_funcs.json (qualified names, nested ones included), sa/known_sigs.json (per
function a token fingerprint used to recognise a *renamed* audited function) and sa/known_locals.json (per function the binding-site
fingerprints of its locals, taken after constant propagation, used to undo consistent renames of locals).
Run only when the rule anchors are re-audited against a new tree."""
import ast, json, os, sys
sys.path.insert(0, os.path.dirname(os.path.dirname(os.path.abspath(__file__))))
from sa.normalize import ProgramNormalizer, fingerprint, local_fingerprints

root = sys.argv[1] if len(sys.argv) > 1 else "/repo"
trees, is_init = {}, {}
for dp, dn, fns in os.walk(os.path.join(root, "nostr_relay")):
    for f in sorted(fns):
        if not f.endswith(".py"):
            continue
        full = os.path.join(dp, f)
        rel = os.path.relpath(full, root)
        mod = rel[:-3].replace(os.sep, ".")
        if mod.endswith(".__init__"):
            mod = mod[:-9]
        trees[mod] = ast.parse(open(full).read())
        is_init[mod] = f == "__init__.py"
pn = ProgramNormalizer(trees, is_init)
pn.propagate_all()
pn.split_with_items()
pn.canonical_forms()
known, sigs, locs = set(), {}, {}
for mod, tree in trees.items():
    def visit(node, prefix):
        for ch in ast.iter_child_nodes(node):
            if isinstance(ch, (ast.FunctionDef, ast.AsyncFunctionDef)):
                q = f"{mod}:{prefix}{ch.name}"
                known.add(q)
                sigs[q] = sorted(fingerprint(ch))
                lf = local_fingerprints(ch)
                if lf:
                    locs[q] = lf
                visit(ch, prefix + ch.name + ".")
            elif isinstance(ch, ast.ClassDef):
                visit(ch, prefix + ch.name + ".")
            else:
                visit(ch, prefix)
    visit(tree, "")
here = os.path.join(os.path.dirname(os.path.dirname(os.path.abspath(__file__))), "sa")
json.dump(sorted(known), open(os.path.join(here, "known_funcs.json"), "w"), indent=0)
json.dump(sigs, open(os.path.join(here, "known_sigs.json"), "w"), indent=0, sort_keys=True)
json.dump(locs, open(os.path.join(here, "known_locals.json"), "w"), indent=0, sort_keys=True)
classes = set()
for mod, tree in trees.items():
    for n in ast.walk(tree):
        if isinstance(n, ast.ClassDef):
            classes.add(f"{mod}:{n.name}")
json.dump(sorted(classes), open(os.path.join(here, "known_classes.json"), "w"), indent=0)
json.dump({m: pn.imports[m] for m in sorted(pn.imports)}, open(os.path.join(here, "known_imports.json"), "w"), indent=0, sort_keys=True)
print(len(known), "functions", sum(len(v) for v in locs.values()), "locals")
