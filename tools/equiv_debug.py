#!/usr/bin/env python3
"""equiv_debug.py <Cxx> <qual> <transformation> - show the new findings of one automatic equivalence variant and the variant's source"""
import ast, importlib, sys, os
sys.path.insert(0, os.path.dirname(os.path.dirname(os.path.abspath(__file__))))
from sa import check  # noqa
from sa.core import Program
from sa.ctx import RunCtx
from sa.autoequiv import TRANSFORMS
from sa.automut import _splice
prop, qual, t = sys.argv[1:4]
P = Program()
fn = P.func(qual); mod = fn._module
tree = ast.parse(mod.src)
src_fn = next(n for n in ast.walk(tree) if isinstance(n, (ast.FunctionDef, ast.AsyncFunctionDef)) and n.name == fn.name and n.lineno == fn.lineno)
new = TRANSFORMS[t](src_fn)
new_src = _splice(mod.src, src_fn, new)
base = RunCtx(prop, "quick", P); m = importlib.import_module(f"sa.props.{prop.lower()}"); m.run(P, base)
bk = {f.key for f in base.findings}
p2 = P.derive({mod.rel: new_src})
ctx = RunCtx(prop, "quick", p2)
try:
    m.run(p2, ctx); ctx.check_floors()
except Exception as e:
    print("ERROR", e)
for f in ctx.findings:
    if f.key not in bk:
        print(f"[{f.rule}] {f.qual}:{f.line} {f.message[:200]}\n    {f.stmt[:160]}")
if "-v" in sys.argv:
    print(ast.unparse(p2.func(qual)))
