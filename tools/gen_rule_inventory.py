#!/usr/bin/env python3
"""Rewrite 'Appendix D - rule inventory' at the end of DESIGN.md from the evidence files of the last run."""
import glob, json, os
V = os.path.dirname(os.path.dirname(os.path.abspath(__file__)))
out = ["## Appendix D — rule inventory (generated from the evidence files of the current tree)", "",
       "One line per rule: id, instances matched on the current tree / hand-confirmed floor (a run whose count falls below the floor fails as ANALYSIS-ERROR), and the beginning",
       "of its statement. The full statements are in `evidence/<id>.json` (`coverage.rules`) and in `sa/props/`. Regenerate with `python3 tools/gen_rule_inventory.py`.", ""]
total = 0
for p in sorted(glob.glob(os.path.join(V, "evidence", "C*.json"))):
    d = json.load(open(p))
    rules = d["coverage"].get("rules")
    out += [f"### {d['property_id']}", "", "| rule | instances / floor | statement (beginning) |", "|---|---|---|"]
    items = rules.items() if isinstance(rules, dict) else [(r.get("id") or r.get("rule"), r) for r in rules]
    for rid, r in items:
        desc = (r.get("description") or r.get("text") or r.get("statement") or "") if isinstance(r, dict) else str(r)
        inst = r.get("instances", r.get("matched", "")) if isinstance(r, dict) else ""
        floor = r.get("floor", "") if isinstance(r, dict) else ""
        text = " ".join(desc.split()).replace("|", "/")
        out.append(f"| `{rid}` | {inst} / {floor} | {text[:230]}{'…' if len(text) > 230 else ''} |")
        total += 1
    out.append("")
out.insert(4, f"{total} rule instances over 19 properties (shared rules appear once per property they are registered under).")
s = open(os.path.join(V, "DESIGN.md")).read()
marker = "## Appendix D — rule inventory"
if marker in s:
    s = s[: s.index(marker)].rstrip("\n") + "\n\n"
else:
    s = s.rstrip("\n") + "\n\n"
open(os.path.join(V, "DESIGN.md"), "w").write(s + "\n".join(out) + "\n")
print(total, "rules")
