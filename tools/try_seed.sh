#!/bin/bash
# try_seed.sh <seed-dir> [PROP ...]  - run the checks against a scratch copy of /repo with the seed's patch applied
SEED=$(readlink -f "$1"); shift
W=$(mktemp -d /tmp/tryseed.XXXXXX)
trap 'rm -rf "$W"' EXIT
cp -r /repo/nostr_relay "$W/nostr_relay"
( cd "$W" && git init -q . 2>/dev/null; git -C "$W" apply "$SEED/patch.diff" 2>/dev/null || patch -d "$W" -p1 -s < "$SEED/patch.diff" ) || { echo "PATCH-FAILED $SEED"; exit 3; }
PROPS="$@"
[ -z "$PROPS" ] && PROPS=$(python3 -c "import json;print(' '.join(c['property_id'] for c in json.load(open('/verif/MANIFEST.json'))['checks']))")
HIT=""
for p in $PROPS; do
  out=$(cd /verif && SA_REPO="$W" python3-vt -m sa.check $p --no-evidence 2>&1); rc=$?
  if [ $rc -ne 0 ]; then HIT="$HIT $p(rc=$rc)"; echo "$out" | grep -v "^VIOLATION\|^KNOWN" | head -6; fi
done
echo "SEED $(basename $SEED): detected by:${HIT:- NONE}"
