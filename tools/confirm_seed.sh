#!/bin/bash
# confirm_seed.sh <seed-dir> [commit]
# Confirms a seeded change in a scratch worktree (outside /repo and /verif):
#   demo passes on the unchanged tree, patch applies, demo fails with the patch,
#   the pinned suite still passes with the patch.  Prints one JSON line; removes the worktree.
SEED=$(readlink -f "$1")
NAME=$(basename "$SEED")
VAR=${NAME##*-}
COMMIT=${2:-HEAD}
W=$(mktemp -d /tmp/confirm.XXXXXX)
rmdir "$W"
git -C /repo worktree add --detach "$W" "$COMMIT" >/dev/null 2>&1 || { echo "{\"seed\":\"$NAME\",\"error\":\"worktree\"}"; exit 2; }
cleanup() { git -C /repo worktree remove --force "$W" >/dev/null 2>&1; rm -rf "$W"; }
trap cleanup EXIT
mkdir -p "$W/SEEDED/$VAR" && cp -r "$SEED"/. "$W/SEEDED/$VAR/"
cd "$W"
DEMO="SEEDED/$VAR/demo.py"
[ -f "$DEMO" ] || DEMO=$(ls SEEDED/$VAR/demo*.py | head -1)
if ! git apply --check "SEEDED/$VAR/patch.diff" 2>/dev/null; then
  echo "{\"seed\":\"$NAME\",\"commit\":\"$COMMIT\",\"applies\":false}"; exit 3
fi
timeout 600 /venv/bin/python "$DEMO" >/tmp/confirm.$NAME.clean.log 2>&1; CLEAN=$?
git apply "SEEDED/$VAR/patch.diff"
timeout 600 /venv/bin/python "$DEMO" >/tmp/confirm.$NAME.patched.log 2>&1; PATCHED=$?
SUITE=$(/verif/tools/run_baseline.sh "$W" 2>&1 | tail -1)
echo "{\"seed\":\"$NAME\",\"commit\":\"$(git rev-parse --short HEAD)\",\"applies\":true,\"demo_clean_exit\":$CLEAN,\"demo_patched_exit\":$PATCHED,\"suite\":\"$SUITE\"}"
